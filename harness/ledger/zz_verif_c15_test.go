//go:build verif

package ledger

// C15 state-level harness: builds tiny REAL ledgers that differ only in one box of one app, writes a real
// catchpoint file from each, restores it through the real CatchpointCatchupAccessor (ProcessStagingBalances,
// BuildMerkleTrie) and prints what VerifyCatchpoint would hash: the balances trie root, the totals and the label
// (MakeCatchpointLabelMakerCurrent / MakeLabel over GetVerifyData, with the block digest that
// testWriteCatchpoint puts into every file header — the same for all ledgers, as for one block of one chain).
//
// Op grammar:   ledger <box name hex> <box value hex>
//   → round=<n> root=<hex> totals=<hex> label=<label> boxes=<keyhex>:<valuehex>[,…]
//   appstate <programLen> <owner hex> <numByteSlice> <updateRound>
//   → size=<encoded resource bytes> root=<hex> label=<label> owner=<owner as read back from the restored ledger>
// appstate: a one-account state holding ONE application (approval program of programLen bytes, global state
// {"counter":7,"owner":<owner>}) is fed as a catchpoint chunk through the real catchup accessor
// (ProcessStagingBalances, BuildMerkleTrie, GetVerifyData) — application rows of ~1 KB / ~4 KB.
// Ledgers of ops with the same |name|+|value| have the same history length, fees, minimum balances and app
// account counters (TotalBoxes, TotalBoxBytes); they differ in the box only.
import (
	"context"
	"encoding/hex"
	"fmt"
	"path/filepath"
	"sort"
	"strconv"
	"strings"
	"testing"
	"time"

	"github.com/algorand/msgp/msgp"
	"github.com/stretchr/testify/require"

	"github.com/algorand/go-algorand/config"
	"github.com/algorand/go-algorand/crypto"
	"github.com/algorand/go-algorand/data/basics"
	"github.com/algorand/go-algorand/data/bookkeeping"
	"github.com/algorand/go-algorand/data/transactions"
	"github.com/algorand/go-algorand/data/txntest"
	"github.com/algorand/go-algorand/ledger/encoded"
	"github.com/algorand/go-algorand/ledger/ledgercore"
	"github.com/algorand/go-algorand/ledger/store/trackerdb"
	ledgertesting "github.com/algorand/go-algorand/ledger/testing"
	"github.com/algorand/go-algorand/logging"
	"github.com/algorand/go-algorand/protocol"
	"github.com/algorand/go-algorand/zz_verif_tools/vh"
)

func verifC15LHex(b []byte) string {
	if len(b) == 0 {
		return "_"
	}
	return hex.EncodeToString(b)
}

func verifC15LUnhex(s string) []byte {
	if s == "_" {
		return []byte{}
	}
	b, err := hex.DecodeString(s)
	if err != nil {
		panic("bad hex " + s)
	}
	return b
}

var verifC15LSeq int

func verifC15LedgerExec(t *testing.T, op string) string {
	f := strings.Fields(op)
	if len(f) != 3 || f[0] != "ledger" {
		return "bad-op"
	}
	name, value := verifC15LUnhex(f[1]), verifC15LUnhex(f[2])
	verifC15LSeq++

	genBalances, addrs, _ := ledgertesting.NewTestGenesis()
	cfg := config.GetDefaultLocal()
	proto := protocol.ConsensusFuture
	dl := NewDoubleLedger(t, genBalances, proto, cfg)
	defer dl.Close()

	boxApp := dl.fundedApp(addrs[1], 1_000_000, boxAppSource)
	put := txntest.Txn{Type: "appl", Sender: addrs[2], ApplicationID: boxApp}
	putBox := put.Args("put", string(name), string(value))
	putBox.Boxes = []transactions.BoxRef{{Index: 0, Name: name}}
	dl.fullBlock(putBox)

	pay := txntest.Txn{Type: "pay", Sender: addrs[0], Receiver: addrs[3], Amount: 100000}
	for i := 0; i < 12; i++ {
		dl.fullBlock(pay.Noted(strconv.Itoa(i)))
	}
	// flush the trackers up to Latest-MaxAcctLookback (background commits may be in flight: repeat until there)
	want := dl.generator.Latest() - basics.Round(cfg.MaxAcctLookback)
	for i := 0; i < 200 && dl.generator.LatestTrackerCommitted() < want; i++ {
		testCatchpointFlushRound(dl.generator)
		if dl.generator.LatestTrackerCommitted() < want {
			time.Sleep(10 * time.Millisecond)
		}
	}
	require.Equal(t, want, dl.generator.LatestTrackerCommitted(), "trackers not flushed")
	t0 := time.Now()

	tempDir := t.TempDir()
	dataPath := filepath.Join(tempDir, fmt.Sprintf("c15-%d.data", verifC15LSeq))
	filePath := filepath.Join(tempDir, fmt.Sprintf("c15-%d.catchpoint.tar.gz", verifC15LSeq))
	hdr := testWriteCatchpoint(t, config.Consensus[proto], dl.generator.trackerDB(), dataPath, filePath, 0, 0)

	t.Logf("write+restore %v", time.Since(t0))
	// restore through the real catchup accessor, as testNewLedgerFromCatchpoint does
	var initState ledgercore.InitState
	initState.Block.CurrentProtocol = protocol.ConsensusCurrentVersion
	// database name under the test's temp dir (in-memory anyway): nothing may ever land in the package directory
	dbName := filepath.Join(tempDir, fmt.Sprintf("verifC15FromCatchpoint.%d.%d", verifC15LSeq, crypto.RandUint64()))
	l, err := OpenLedger(logging.TestingLog(t), dbName, true, initState, config.GetDefaultLocal())
	require.NoError(t, err)
	defer l.Close()
	accessor := MakeCatchpointCatchupAccessor(l, l.log)
	require.NoError(t, accessor.ResetStagingBalances(context.Background(), true))
	var progress CatchpointCatchupAccessorProgress
	for _, chunk := range readCatchpointFile(t, filePath) {
		require.NoError(t, accessor.ProcessStagingBalances(context.Background(), chunk.headerName, chunk.data, &progress))
	}
	require.NoError(t, accessor.BuildMerkleTrie(context.Background(), nil))
	balancesHash, spver, oa, orp, totals, err := accessor.GetVerifyData(context.Background())
	require.NoError(t, err)
	label := ledgercore.MakeLabel(ledgercore.MakeCatchpointLabelMakerCurrent(hdr.BlocksRound, &hdr.BlockHeaderDigest,
		&balancesHash, totals, &spver, &oa, &orp))

	require.NoError(t, accessor.(*catchpointCatchupAccessorImpl).finishBalances(context.Background()))
	keys, err := l.LookupKeysByPrefix(l.Latest(), "bx:", 100)
	require.NoError(t, err)
	sort.Strings(keys)
	var boxes []string
	for _, k := range keys {
		v, err := l.LookupKv(l.Latest(), k)
		require.NoError(t, err)
		boxes = append(boxes, verifC15LHex([]byte(k))+":"+verifC15LHex(v))
	}
	return fmt.Sprintf("round=%d root=%s totals=%s label=%s boxes=%s", hdr.BlocksRound, verifC15LHex(balancesHash[:]),
		verifC15LHex(protocol.EncodeReflect(&totals)), label, strings.Join(boxes, ","))
}

const (
	verifC15AppRound = basics.Round(1000)
	verifC15AppIdx   = basics.CreatableIndex(5001)
)

func verifC15AppResource(programLen int, owner []byte, nbs, ur uint64) trackerdb.ResourcesData {
	p := basics.AppParams{ClearStateProgram: []byte{0x0a, 0x81, 0x01},
		GlobalState: basics.TealKeyValue{
			"counter": basics.TealValue{Type: basics.TealUintType, Uint: 7},
			"owner":   basics.TealValue{Type: basics.TealBytesType, Bytes: string(owner)},
		}}
	p.GlobalStateSchema = basics.StateSchema{NumUint: 1, NumByteSlice: nbs}
	p.ApprovalProgram = make([]byte, programLen)
	for i := range p.ApprovalProgram {
		p.ApprovalProgram[i] = byte(0x81 + i%7)
	}
	var rd trackerdb.ResourcesData
	rd.SetAppParams(p, false)
	rd.UpdateRound = ur
	return rd
}

func verifC15AppStateExec(t *testing.T, op string) string {
	f := strings.Fields(op)
	if len(f) != 5 {
		return "bad-op"
	}
	programLen, owner, nbs, ur := int(vh.U(f[1])), verifC15LUnhex(f[2]), vh.U(f[3]), vh.U(f[4])
	verifC15LSeq++
	rd := verifC15AppResource(programLen, owner, nbs, ur)
	encRd := protocol.Encode(&rd)

	log := logging.TestingLog(t)
	log.SetLevel(logging.Warn)
	genesisInitState, _ := ledgertesting.GenerateInitState(t, protocol.ConsensusCurrentVersion, 100)
	dbName := filepath.Join(t.TempDir(), fmt.Sprintf("verifC15AppState.%d.%d", verifC15LSeq, crypto.RandUint64()))
	l, err := OpenLedger(log, dbName, true, genesisInitState, config.GetDefaultLocal())
	require.NoError(t, err)
	defer l.Close()
	ctx := context.Background()
	accessor := MakeCatchpointCatchupAccessor(l, log)
	require.NoError(t, accessor.ResetStagingBalances(ctx, true))

	var creator basics.Address
	for i := range creator {
		creator[i] = 0x42
	}
	acct := trackerdb.BaseAccountData{MicroAlgos: basics.MicroAlgos{Raw: 5_000_000}, TotalAppParams: 1,
		TotalAppSchemaNumUint: 1, TotalAppSchemaNumByteSlice: 1, UpdateRound: 990}
	var totals ledgercore.AccountTotals
	totals.Offline.Money = acct.MicroAlgos
	blk := bookkeeping.Block{BlockHeader: bookkeeping.BlockHeader{Round: verifC15AppRound}}
	blk.CurrentProtocol = protocol.ConsensusCurrentVersion
	header := CatchpointFileHeader{
		Version:           CatchpointFileVersionV8,
		BalancesRound:     verifC15AppRound - basics.Round(config.Consensus[protocol.ConsensusCurrentVersion].CatchpointLookback),
		BlocksRound:       verifC15AppRound,
		Totals:            totals,
		TotalAccounts:     1,
		TotalChunks:       1,
		BlockHeaderDigest: blk.Digest(),
	}
	var progress CatchpointCatchupAccessorProgress
	require.NoError(t, accessor.ProcessStagingBalances(ctx, CatchpointContentFileName, protocol.Encode(&header), &progress))
	var chunk CatchpointSnapshotChunkV6
	chunk.Balances = []encoded.BalanceRecordV6{{Address: creator, AccountData: protocol.Encode(&acct),
		Resources: map[uint64]msgp.Raw{uint64(verifC15AppIdx): encRd}}}
	name := fmt.Sprintf("%s%d%s", catchpointBalancesFileNamePrefix, 1, catchpointBalancesFileNameSuffix)
	require.NoError(t, accessor.ProcessStagingBalances(ctx, name, protocol.Encode(&chunk), &progress))
	require.NoError(t, accessor.BuildMerkleTrie(ctx, nil))
	balancesHash, spver, oa, orp, restoredTotals, err := accessor.GetVerifyData(ctx)
	require.NoError(t, err)
	blockDigest := blk.Digest()
	label := ledgercore.MakeLabel(ledgercore.MakeCatchpointLabelMakerCurrent(verifC15AppRound, &blockDigest, &balancesHash,
		restoredTotals, &spver, &oa, &orp))

	// what the node would adopt: read the application back from the staged (then applied) balances
	restoredOwner := "unread"
	if err := accessor.(*catchpointCatchupAccessorImpl).finishBalances(ctx); err == nil {
		if res, err := l.LookupApplication(l.Latest(), creator, basics.AppIndex(verifC15AppIdx)); err == nil && res.AppParams != nil {
			restoredOwner = verifC15LHex([]byte(res.AppParams.GlobalState["owner"].Bytes))
		}
	}
	return fmt.Sprintf("size=%d root=%s label=%s owner=%s", len(encRd), verifC15LHex(balancesHash[:]), label, restoredOwner)
}

// verifC15AppStateGenerate: pairs (and triples) of one-application states that differ only near the END of the
// application row's encoding, at encoded sizes around 1 KB, 2 KB, 4 KB and a few seeded ones.
func verifC15AppStateGenerate() []string {
	r := vh.NewRng(vh.Seed() + 1500)
	owner := r.Bytes(32)
	base := verifC15AppResource(1, owner, 1, 990)
	baseLen := len(protocol.Encode(&base)) - 1
	targets := []int{984, 985, 1000, 1024, 1025, 1064, 2048, 4096, 900 + r.Intn(200), 4000 + r.Intn(200)}
	if vh.Thorough() {
		targets = append(targets, 300, 512, 4200, 8192)
	}
	if vh.Thorough() {
		for n := 960; n <= 1070; n += 3 {
			targets = append(targets, n)
		}
		for i := 0; i < 20; i++ {
			targets = append(targets, 200+r.Intn(4200))
		}
	}
	var ops []string
	for _, size := range targets {
		plen := size - baseLen
		for d := -4; d <= 0; d++ { // msgpack length headers of the program grow at 256 / 65536
			if rd := verifC15AppResource(plen+d, owner, 1, 990); plen+d >= 1 && len(protocol.Encode(&rd)) == size {
				plen += d
				break
			}
		}
		if plen < 1 {
			continue
		}
		o2 := append([]byte{}, owner...)
		o2[31] ^= 1
		o3 := append(append([]byte{}, owner[:16]...), make([]byte, 16)...)
		for j := 16; j < 32; j++ {
			o3[j] = 0xee
		}
		ops = append(ops, fmt.Sprintf("appstate %d %s 1 990", plen, verifC15LHex(owner)))
		ops = append(ops, fmt.Sprintf("appstate %d %s 1 990", plen, verifC15LHex(o2))) // last byte of the last global value
		if vh.Thorough() {
			ops = append(ops, fmt.Sprintf("appstate %d %s 1 990", plen, verifC15LHex(o3)))
		} // second half of it
		ops = append(ops, fmt.Sprintf("appstate %d %s 2 990", plen, verifC15LHex(owner)))                     // a schema count
		ops = append(ops, fmt.Sprintf("appstate %d %s 1 %d", plen, verifC15LHex(owner), uint64(990)+(1<<32))) // update round, same affinity bytes
	}
	return ops
}

func verifC15LedgerGenerate() []string {
	line := func(n, v string) string {
		return fmt.Sprintf("ledger %s %s", verifC15LHex([]byte(n)), verifC15LHex([]byte(v)))
	}
	// the boundary-shift pair of the known finding and two controls of the same sizes
	ops := []string{line("ab", "c"), line("a", "bc"), line("ab", "d"), line("ac", "c")}
	if vh.Thorough() {
		r := vh.NewRng(vh.Seed() + 15)
		for i := 0; i < 3; i++ {
			n, v := r.Bytes(1+r.Intn(6)), r.Bytes(1+r.Intn(8))
			ops = append(ops, line(string(n), string(v)))
			ops = append(ops, line(string(append(append([]byte{}, n...), v[0])), string(v[1:]))) // shifted
			v2 := append([]byte{}, v...)
			v2[len(v2)-1] ^= 1
			ops = append(ops, line(string(n), string(v2))) // control
		}
	}
	return append(ops, verifC15AppStateGenerate()...)
}

func TestVerifC15Ledger(t *testing.T) {
	// go test runs with cwd = the package directory inside the repository; the repo's own helpers
	// (testNewLedgerFromCatchpoint) name their in-memory databases by RELATIVE path, and a '#' in a sub-test name
	// would turn such a name into an on-disk file. Work from a temp dir so that no relative path can reach /repo.
	t.Chdir(t.TempDir())
	ops, replay := vh.ReplayOps()
	if !replay {
		ops = verifC15LedgerGenerate()
	}
	out := vh.Open("c15ledger")
	defer out.Close()
	for i, op := range ops {
		res := "FAILED"
		// distinct sub-test names without '#': the helpers derive (in-memory) database names from t.Name()
		ok := t.Run(fmt.Sprintf("op%dx", i), func(t *testing.T) {
			if strings.HasPrefix(op, "appstate ") {
				res = verifC15AppStateExec(t, op)
			} else {
				res = verifC15LedgerExec(t, op)
			}
		})
		if !ok && res == "FAILED" {
			res = "FAILED (see test log)"
		}
		out.Emit(op, res)
	}
	t.Logf("c15ledger: %d ops", out.N)
}
