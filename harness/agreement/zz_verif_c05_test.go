//go:build verif

package agreement

// C05 — "consensus makes progress once the network is synchronous": the synchronous-phase driver on top of NetDrive.
//
// One schedule = an ARBITRARY ASYNCHRONOUS PREFIX (one of NetDrive's adversarial profiles: drops, duplicates, early timers,
// partitions, crashes + restores, stalled persistence, a Byzantine minority signing with its real keys) of PRNG-chosen
// length, then the decision line
//
//	sync mode=<vt|ls|nd> delta=<ms> byz=<0|1>
//
// (the SYNCHRONY POINT: partitions heal, stalled nodes are released, nothing is dropped any more), then the synchronous
// phase until every honest node has committed round `target` = the first round no honest ledger holds at the synchrony
// point, or the step budget is exhausted.  Synchronous schedulers (re-broadcasts are delivered again, see forgetDelivered):
//
//	ls   lock-step: every fresh message is delivered (random order) before any timer fires; when nothing is deliverable the node
//	     whose next timer has the smallest period-relative expiry fires that timer — the step timer,
//	     or the fast-recovery timer once the step deadline lies beyond it (see pickLaggard).
//	nd   (only on request, VERIF_C05_MODE=nd; K is not monitored) NetDrive's own `sync` profile = ls, but 30 % of the timers are
//	     those of ANY node, so a deadline may fire before another node's filter timeout: not a bounded-delay order.
//	vt   virtual time, bounded delay Δ = delta: every node's timers expire at zero(node) + player.Deadline / + player.
//	     FastRecoveryDeadline (zero = the virtual time at which the node entered its period; the real durations of the real
//	     player are used), a message sent at virtual time t is delivered (random order) not later than t + Δ, the earliest
//	     timer fires when no message is overdue.  Fast-recovery timeouts are part of this mode.  At the synchrony point the
//	     zero of every node is drawn so that its pending step deadline expires within one deadline.
//
// With byz=1 the Byzantine minority keeps acting after the synchrony point (votes, equivocations, bundles, and proposals to
// subsets of the honest nodes); with byz=0 it falls silent (crash faults).  Ledger catch-up (`cu`) stays enabled: a node
// that is a round behind obtains the committed block from a peer's ledger — that is the job of the catch-up service, not of
// the agreement protocol (the player of round r+1 never re-broadcasts round r's certificate).
//
// Output: the four NetDrive files (so checks/netdrive.py's accept / schedules_of / logs_of apply unchanged) with these extra
// concrete-log lines:
//
//	SYNC at=<decision index> mode delta byz target n honest=<bits>
//	SYNCNODE node gen round period step next=<ledger.NextRound> dl=<ns> dltype fastdl=<ns>       one per honest node at the synchrony point
//	DL node gen round period step dl=<ns> dltype fastdl=<ns> vt=<ns>                           after the synchrony point: whenever a node's player triple or deadline changed
//	FIRE node kind=<t|f> round period step vt=<ns>                                              a timer fired in the synchronous phase
//	SYNCEND decisions=<n in the synchronous phase> done=<0|1> vt=<ns>
//	PIPELINE node gen round period step fresh freshperiod freshstep val what event     monitor ACTED-ON-FRESHEST (see c05AfterHandle), whole run
//
// The monitors (every live honest node calls EnsureBlock for `target` — and every earlier round it lacks — within K periods
// and within the step budget; deadlines increase; no panic; the C01 acceptor still accepts) are evaluated by checks/C05.py on
// these files.  A schedule is replayable: `sync …` is an ordinary decision line, the decisions after it are recorded verbatim; a
// replay executes the recorded decisions and then keeps running the synchronous scheduler until the target is committed or the
// budget is exhausted.
//
// Environment (besides NetDrive's): VERIF_C05_SCHEDULES, VERIF_C05_FROM, VERIF_C05_MODE (force vt|ls|nd), VERIF_C05_NOSCEN=1 (skip the two directed scenarios 9000/9001), VERIF_C05_PREFIX (force the
// prefix length), VERIF_C05_BYZ (force 0|1 after the synchrony point), VERIF_C05_SYNCSTEPS (budget of the synchronous phase).
//
// Directed prefixes (ids 9000+, run before the generated schedules): c05ScenPipelined (pipelined thresholds for enterRound) and
// the family c05ScenSplit (ids 9100+: two next quorums of one period — ⊥ at step sb, a value at step sv ≥ sb+2 — seen by different
// minorities; progress after the synchrony point needs the re-broadcast older-step bundle to be accepted).
//
// TestVerifC05Player (bottom of the file) ties the single-node timeout transitions on one real player + router, and bundleFresh on a grid.

import (
	"fmt"
	"io"
	"os"
	"sort"
	"strings"
	"testing"
	"time"

	"github.com/algorand/go-algorand/data/basics"
	"github.com/algorand/go-algorand/logging"
	"github.com/algorand/go-algorand/zz_verif_tools/vh"
)

type c05Status struct {
	gen      int
	round    basics.Round
	period   period
	step     step
	deadline Deadline
	fastDl   time.Duration
}

type c05Run struct {
	r   *ndRun
	out *ndFiles
	rng *vh.Rng

	prefix    int    // number of decisions of the asynchronous prefix
	mode      string // vt | nd
	delta     time.Duration
	byzActive bool
	syncSteps int

	synced   bool
	syncedAt int
	target   basics.Round
	vnow     time.Duration
	zero     []time.Duration
	last     []c05Status
	sendAt   map[string]time.Duration
	nSync    int
	nTimers  int
	script   func(c *c05Run, s *ndScen)
}

// c05Config: NetDrive's planning (ndPlan) with the node count and the prefix profile chosen by the caller: weights 1–3, all
// thresholds T = ⌊(W+F)/2⌋+1, a Byzantine minority (below the equivocation bound, honest weight ≥ T) for the adversarial profiles.
func c05Config(master uint64, i, n int, profile string) ndConfig {
	rng := vh.NewRng(master*1000003 + uint64(i)*7919 + 4242)
	c := ndConfig{id: i, seed: rng.U64() >> 1, n: n, profile: profile}
	c.w = make([]uint64, c.n)
	c.honest = make([]bool, c.n)
	for k := range c.w {
		c.w[k] = 1
		if rng.Intn(3) == 0 {
			c.w[k] = uint64(1 + rng.Intn(3))
		}
		c.honest[k] = true
	}
	wantByz := profile == "byz" || profile == "mixed" || profile == "stall" || profile == "harsh" || rng.Intn(3) == 0
	if v := os.Getenv("VERIF_ND_BYZ"); v != "" {
		wantByz = v == "1"
	}
	if wantByz {
		order := make([]int, c.n)
		for k := range order {
			order[k] = k
		}
		for k := c.n - 1; k > 0; k-- {
			j := rng.Intn(k + 1)
			order[k], order[j] = order[j], order[k]
		}
		for _, k := range order {
			c.honest[k] = false
			W, F := c.W()
			if T := (W+F)/2 + 1; W-F < T || 3*F >= W {
				c.honest[k] = true
				continue
			}
			if rng.Intn(2) == 0 {
				break
			}
		}
	}
	W, F := c.W()
	c.T = (W+F)/2 + 1
	return c
}

// c05Plan: schedule i.  Node counts 4–7 in both tiers; the prefix profile cycles through NetDrive's adversarial profiles.
func c05Plan(master uint64, i int, thorough bool) (ndConfig, *c05Run) {
	rng := vh.NewRng(master*7368787 + uint64(i)*104729 + 3)
	prefixProfiles := []string{"harsh", "lossy", "split", "crash", "byz", "harsh", "stall", "mixed", "split", "part", "harsh"}
	profile := prefixProfiles[i%len(prefixProfiles)]
	if p := os.Getenv("VERIF_ND_PROFILE"); p != "" {
		profile = p
	}
	n := 4 + (i/2)%4
	if v := ndEnvInt("VERIF_ND_NODES", 0); v >= 4 && v <= ndMaxNodes {
		n = v
	}
	cfg := c05Config(master, i, n, profile)
	c := &c05Run{rng: rng, sendAt: map[string]time.Duration{}}
	maxPrefix := 260 + 60*(cfg.n-4)
	if thorough {
		maxPrefix = 500 + 100*(cfg.n-4)
	}
	switch i % 5 {
	case 0:
		c.prefix = rng.Intn(12) // almost no prefix: synchrony from the start
	default:
		c.prefix = 20 + rng.Intn(maxPrefix)
	}
	c.prefix = ndEnvInt("VERIF_C05_PREFIX", c.prefix)
	c.mode = "vt"
	if i%3 == 2 {
		c.mode = "ls"
	}
	if m := os.Getenv("VERIF_C05_MODE"); m != "" {
		c.mode = m
	}
	c.delta = []time.Duration{0, 50 * time.Millisecond, 250 * time.Millisecond}[rng.Intn(3)]
	_, F := cfg.W()
	c.byzActive = F > 0 && rng.Intn(2) == 0
	if v := os.Getenv("VERIF_C05_BYZ"); v != "" {
		c.byzActive = F > 0 && v == "1"
	}
	c.syncSteps = c05DecisionCap(cfg.n)
	cfg.rounds = 1 << 20 // the run ends when the target round is committed, not after a number of rounds
	cfg.maxSteps = c.prefix + 1 + c.syncSteps
	return cfg, c
}

// The budget of the synchronous phase is counted in TIMER FIRINGS, derived from the timeouts: one period costs a node at most
// c05TimersPerPeriod firings (filter, deadline, nap + vote for each of the next steps up to the one whose deadline exceeds two
// fast-recovery intervals — step next+8 —, and a handful of fast-recovery timeouts), and the property allows K + b periods
// (checks/C05.py: K = 3, b = Byzantine-led periods; 3 more periods of slack).  Deliveries are not budgeted (finitely many per timer
// firing); c05DecisionCap only bounds the running time of a schedule that is stuck.
const c05TimersPerPeriod = 34
const c05BudgetPeriods = 9

func (c *c05Run) timerBudget() int {
	return len(c.r.honestIDs()) * c05BudgetPeriods * c05TimersPerPeriod
}

func c05DecisionCap(n int) int { return ndEnvInt("VERIF_C05_SYNCSTEPS", 4*(6000+1500*(n-4))) }

func (c *c05Run) snapshot(n *ndNode) c05Status {
	// caller holds r.mu
	return c05Status{gen: n.gen, round: n.round, period: n.period, step: n.step, deadline: n.deadline, fastDl: n.fastDl}
}

// doSync executes the `sync …` decision line (generated or replayed).
func (c *c05Run) doSync(line string, at int) {
	r := c.r
	for _, f := range strings.Fields(line)[1:] {
		k, v, _ := strings.Cut(f, "=")
		switch k {
		case "mode":
			c.mode = v
		case "delta":
			var ms int
			fmt.Sscan(v, &ms)
			c.delta = time.Duration(ms) * time.Millisecond
		case "byz":
			c.byzActive = v == "1"
		}
	}
	r.part = nil
	for _, n := range r.nodes {
		if n.honest && n.heldGate() != nil {
			r.exec(fmt.Sprintf("unhold %d", n.id))
		}
	}
	if !r.waitQuiet(15 * time.Second) {
		r.note("QUIET-TIMEOUT at the synchrony point")
	}
	r.genQueue = nil
	c.forgetDelivered()
	r.cfg.profile = "sync"
	c.synced, c.syncedAt = true, at
	c.vnow = 0
	c.target = 0
	for _, n := range r.nodes {
		if n.honest && n.ledger.NextRound() > c.target {
			c.target = n.ledger.NextRound()
		}
	}
	hs := make([]byte, r.cfg.n)
	for i := range hs {
		hs[i] = '0'
		if r.cfg.honest[i] {
			hs[i] = '1'
		}
	}
	c.zero = make([]time.Duration, r.cfg.n)
	c.last = make([]c05Status, r.cfg.n)
	r.mu.Lock()
	r.logLocked("SYNC at=%d mode=%s delta=%d byz=%d target=%d n=%d honest=%s", at, c.mode, c.delta/time.Millisecond, b2i(c.byzActive), c.target, r.cfg.n, hs)
	for _, n := range r.nodes {
		if !n.honest {
			continue
		}
		st := c.snapshot(n)
		c.last[n.id] = st
		// the node's pending step deadline expires within one deadline from now
		if st.deadline.Duration > 0 {
			c.zero[n.id] = -time.Duration(c.rng.U64() % uint64(st.deadline.Duration))
		}
		r.logLocked("SYNCNODE node=%d gen=%d round=%d period=%d step=%d next=%d dl=%d dltype=%d fastdl=%d zero=%d", n.id, st.gen, st.round, st.period, st.step,
			n.ledger.NextRound(), st.deadline.Duration, st.deadline.Type, st.fastDl, c.zero[n.id])
	}
	for _, m := range r.pending {
		if !m.consumed {
			c.sendAt[m.key] = 0
		}
	}
	r.mu.Unlock()
}

// forgetDelivered: NetDrive delivers a message (tag, bytes) to a destination once and treats every further copy as a duplicate
// that need not be delivered — right for relay copies, wrong for RE-BROADCASTS: partitionPolicy re-sends the same bundle and the
// same payload bytes at every next / fast vote until they take effect (a node may have received the payload long ago, when it
// could not use it, and dropped it).  In the synchronous phase every message sent is delivered: the per-destination memory is
// cleared at the synchrony point and at every timer firing (re-broadcasts only happen on timeouts), so between two timer
// firings each distinct message still reaches a destination once, and what is sent again after a timeout is delivered again.
func (c *c05Run) forgetDelivered() {
	r := c.r
	r.mu.Lock()
	for i := range r.delivered {
		r.delivered[i] = map[string]bool{}
	}
	r.mu.Unlock()
}

func b2i(b bool) int {
	if b {
		return 1
	}
	return 0
}

// observe: after every decision of the synchronous phase — re-zero nodes that entered a period or round, stamp new messages,
// log deadline changes.
func (c *c05Run) observe() {
	r := c.r
	r.mu.Lock()
	defer r.mu.Unlock()
	for _, n := range r.nodes {
		if !n.honest {
			continue
		}
		st := c.snapshot(n)
		old := c.last[n.id]
		if st == old {
			continue
		}
		if st.round != old.round || st.period != old.period || st.gen != old.gen {
			c.zero[n.id] = c.vnow
		}
		r.logLocked("DL node=%d gen=%d round=%d period=%d step=%d dl=%d dltype=%d fastdl=%d vt=%d", n.id, st.gen, st.round, st.period, st.step,
			st.deadline.Duration, st.deadline.Type, st.fastDl, c.vnow)
		c.last[n.id] = st
	}
	for _, m := range r.pending {
		if !m.consumed {
			if _, ok := c.sendAt[m.key]; !ok {
				c.sendAt[m.key] = c.vnow
			}
		}
	}
}

func (c *c05Run) done() bool {
	for _, n := range c.r.nodes {
		if n.honest && n.ledger.NextRound() <= c.target {
			return false
		}
	}
	return true
}

// genSync: one decision of the synchronous phase.
func (c *c05Run) genSync() string {
	r := c.r
	if len(r.genQueue) > 0 {
		l := r.genQueue[0]
		r.genQueue = r.genQueue[1:]
		return l
	}
	hon := r.honestIDs()
	if byz := r.byzIDs(); c.byzActive && len(byz) > 0 && c.rng.Intn(100) < 6 {
		if l := c.genByzSync(byz[c.rng.Intn(len(byz))]); l != "" {
			return l
		}
	}
	if c.mode == "nd" {
		return r.generate()
	}
	fresh, dups := r.candidates()
	if c.mode == "ls" {
		// lock-step: everything in flight is delivered (random order) before a clock advances; then the step timer of a node
		// that is furthest behind in (round, period, step) fires — timers of equal steps expire before timers of later steps
		if len(fresh) > 0 {
			return "d " + fresh[c.rng.Intn(len(fresh))].key
		}
		if n := r.pickCatchup(hon); n >= 0 && c.rng.Intn(100) < 50 {
			return fmt.Sprintf("cu %d", n)
		}
		if n, kind := c.pickLaggard(hon); n >= 0 {
			return fmt.Sprintf("%s %d", kind, n)
		}
		if n := r.pickCatchup(hon); n >= 0 {
			return fmt.Sprintf("cu %d", n)
		}
		return "end"
	}
	if n := r.pickCatchup(hon); n >= 0 && len(fresh) == 0 && c.rng.Intn(100) < 50 {
		return fmt.Sprintf("cu %d", n) // nothing in flight can help the node that is a round behind: the catch-up service does
	}
	if len(dups) > 0 && c.rng.Intn(100) < 2 {
		return "d " + dups[c.rng.Intn(len(dups))].key
	}
	// earliest timer
	type tm struct {
		at   time.Duration
		node int
		kind string
	}
	var timers []tm
	r.mu.Lock()
	for _, id := range hon {
		n := r.nodes[id]
		if n.step < ndMaxStep && n.deadline.Duration > 0 {
			timers = append(timers, tm{c.zero[id] + n.deadline.Duration, id, "t"})
		}
		timers = append(timers, tm{c.zero[id] + n.fastDl, id, "f"})
	}
	overdue := []*ndMsg{}
	sort.SliceStable(timers, func(i, j int) bool { return timers[i].at < timers[j].at })
	var first tm
	if len(timers) > 0 {
		first = timers[0]
		// ties: a random one of the timers that expire at the same instant
		k := 1
		for k < len(timers) && timers[k].at == first.at {
			k++
		}
		first = timers[c.rng.Intn(k)]
		for _, m := range fresh {
			if c.sendAt[m.key]+c.delta <= first.at || c.delta == 0 {
				overdue = append(overdue, m)
			}
		}
	}
	r.mu.Unlock()
	if len(fresh) > 0 && (len(overdue) > 0 || len(timers) == 0 || c.rng.Intn(2) == 0) {
		pool := fresh
		if len(overdue) > 0 && c.rng.Intn(2) == 0 {
			pool = overdue
		}
		return "d " + pool[c.rng.Intn(len(pool))].key
	}
	if len(timers) == 0 {
		if n := r.pickCatchup(hon); n >= 0 {
			return fmt.Sprintf("cu %d", n)
		}
		return "end"
	}
	if first.at > c.vnow {
		c.vnow = first.at
	}
	return fmt.Sprintf("%s %d @%d", first.kind, first.node, c.vnow/time.Millisecond)
}

// c05ProfileOf: two prefix profiles harsher than NetDrive's (most schedules of NetDrive's own profiles commit in period 0 or 1):
// `harsh` loses a third of the messages and fires timers early and often; `split` keeps the network partitioned most of the time.
func c05ProfileOf(name string) (ndProfile, bool) {
	switch name {
	case "harsh":
		return ndProfile{drop: 330, dup: 10, early: 150, fast: 40, crash: 8, maxCrashes: 3, part: 10, heal: 20, byz: 60, catchup: 5}, true
	case "split":
		return ndProfile{drop: 60, early: 120, fast: 30, part: 120, heal: 12, byz: 40, catchup: 5}, true
	}
	return ndProfile{}, false
}

// genPrefix: one decision of the asynchronous prefix.  NetDrive's generator for NetDrive's profiles; for the two profiles above a
// copy of (*ndRun).generate with the profile passed in (NetDrive's files are not edited).
func (c *c05Run) genPrefix() string {
	r := c.r
	p, own := c05ProfileOf(r.cfg.profile)
	if !own {
		return r.generateWithHolds()
	}
	if len(r.genQueue) > 0 {
		l := r.genQueue[0]
		r.genQueue = r.genQueue[1:]
		return l
	}
	fresh, dups := r.candidates()
	hon := r.honestIDs()
	byz := r.byzIDs()
	x := r.rng.Intn(1000)
	acc := 0
	hit := func(pm int) bool { acc += pm; return x < acc }
	switch {
	case len(byz) > 0 && hit(p.byz):
		if l := r.genByz(byz[r.rng.Intn(len(byz))]); l != "" {
			return l
		}
	case r.stats.crashes < p.maxCrashes && hit(p.crash):
		return fmt.Sprintf("crash %d", hon[r.rng.Intn(len(hon))])
	case r.part == nil && len(hon) >= 3 && hit(p.part):
		bits := make([]byte, r.cfg.n)
		for i := range bits {
			bits[i] = '0' + byte(r.rng.Intn(2))
		}
		return "part " + string(bits)
	case r.part != nil && hit(p.heal):
		return "heal"
	case hit(p.early):
		if n := r.pickTimer(hon); n >= 0 {
			return fmt.Sprintf("t %d", n)
		}
	case hit(p.fast):
		if n := r.pickFast(hon, true); n >= 0 {
			return fmt.Sprintf("f %d", n)
		}
	case hit(p.catchup):
		if n := r.pickCatchup(hon); n >= 0 {
			return fmt.Sprintf("cu %d", n)
		}
	}
	if len(fresh) == 0 {
		if n := r.pickTimer(hon); n >= 0 {
			return fmt.Sprintf("t %d", n)
		}
		if r.part != nil {
			return "heal"
		}
		if len(dups) > 0 {
			return "d " + dups[r.rng.Intn(len(dups))].key
		}
		return "end"
	}
	m := fresh[r.rng.Intn(len(fresh))]
	y := r.rng.Intn(1000)
	switch {
	case y < p.drop:
		return "x " + m.key
	case y < p.drop+p.dup:
		return "u " + m.key
	}
	return "d " + m.key
}

// pickLaggard: the lock-step scheduler's clock.  The honest node that is furthest behind IN ITS OWN PERIOD fires the timer it is
// waiting for: nodes are ordered by the time since the node entered its period at which its next timer expires (as if all nodes
// had entered their current periods at the same instant), where the next timer is
// the earlier of the step timer (player.Deadline) and the fast-recovery timer (player.FastRecoveryDeadline) — so the first fast
// timeout of a period (deadline 0) fires at once, step timers of equal steps fire before those of later steps, and once a step
// deadline lies beyond the fast-recovery deadline (steps whose deadline exceeds ≈ 5–10 minutes) the fast-recovery timeout comes
// first, as in real time.  Step timers of nodes at step ≥ ndMaxStep (deadlines of many hours) are never fired; their fast
// timers are.  (The first version fired step timers only: a synchrony point with every node at step 17 left no timer to fire.)
func (c *c05Run) pickLaggard(hon []int) (int, string) {
	r := c.r
	r.mu.Lock()
	defer r.mu.Unlock()
	type cand struct {
		id   int
		kind string
		rnd  basics.Round
		per  period
		at   time.Duration
	}
	var best []cand
	for _, id := range hon {
		n := r.nodes[id]
		x := cand{id: id, kind: "f", rnd: n.round, per: n.period, at: n.fastDl}
		if n.step < ndMaxStep && n.deadline.Duration > 0 && n.deadline.Duration <= n.fastDl {
			x.kind, x.at = "t", n.deadline.Duration
		}
		if len(best) > 0 {
			b := best[0]
			// fairness: ONLY the period-relative expiry counts.  Ordering by (round, period) first would starve a node that is
			// ahead: the fast-recovery timers of the nodes behind it never run out, so it would never reach the step at which it
			// re-broadcasts the bundle the others are waiting for.  With this order every node's timers fire infinitely often.
			if x.at > b.at {
				continue
			}
			if x.at != b.at {
				best = best[:0]
			}
		}
		best = append(best, x)
	}
	if len(best) == 0 {
		return -1, ""
	}
	x := best[c.rng.Intn(len(best))]
	return x.id, x.kind
}

// genByzSync: the Byzantine minority after the synchrony point: NetDrive's adversary (genByz) aimed at the target round.
func (c *c05Run) genByzSync(b int) string {
	return c.r.genByz(b)
}

func (c *c05Run) execute() {
	r := c.r
	fmt.Fprintln(c.out.sched, r.cfg.header())
	c.out.sched.Flush()
	for _, n := range r.nodes {
		if n.honest {
			if err := r.startNode(n); err != nil {
				r.fatal = err.Error()
				panic(err)
			}
		}
	}
	if !r.waitQuiet(20 * time.Second) {
		r.note("QUIET-TIMEOUT at start")
	}
	if c.script != nil && r.replay == nil { // a directed prefix: the script issues its decisions through the same executor
		c.script(c, &ndScen{r: r, out: c.out})
		c.prefix = 0
	}
	for i := 0; i < r.cfg.maxSteps; i++ {
		var line string
		switch {
		case r.replay != nil && i < len(r.replay):
			line = r.replay[i]
		case r.replay != nil && !c.synced:
			line = "end"
		case r.replay != nil:
			// the recorded decisions are a prefix: progress is a liveness property, so the replay keeps running the synchronous
			// scheduler after them (on a tree where the recorded decisions no longer apply — REPLAY-DIVERGED — this decides whether
			// the run still gets stuck)
			line = c.genSync()
		case !c.synced && i >= c.prefix:
			line = fmt.Sprintf("sync mode=%s delta=%d byz=%d", c.mode, c.delta/time.Millisecond, b2i(c.byzActive))
		case !c.synced:
			line = c.genPrefix()
			if line == "end" || line == "" { // nothing left to do in the prefix: the synchrony point comes now
				line = fmt.Sprintf("sync mode=%s delta=%d byz=%d", c.mode, c.delta/time.Millisecond, b2i(c.byzActive))
			}
		default:
			line = c.genSync()
		}
		if line == "" || line == "end" {
			break
		}
		fmt.Fprintln(c.out.sched, line)
		c.out.sched.Flush()
		r.stats.steps++
		if strings.HasPrefix(line, "sync") {
			c.doSync(line, i)
		} else {
			if c.synced && (line[0] == 't' || line[0] == 'f') && len(line) > 2 {
				var id int
				fmt.Sscan(strings.Fields(line)[1], &id)
				if id >= 0 && id < len(r.nodes) {
					r.mu.Lock()
					n := r.nodes[id]
					r.logLocked("FIRE node=%d kind=%c round=%d period=%d step=%d vt=%d", id, line[0], n.round, n.period, n.step, c.vnow)
					r.mu.Unlock()
				}
			}
			if c.synced && (line[0] == 't' || line[0] == 'f') {
				c.forgetDelivered()
				c.nTimers++
			}
			r.exec(line)
		}
		if !r.waitQuiet(15 * time.Second) {
			r.note("QUIET-TIMEOUT after `%s`", line)
			r.dumpMonitors()
			break
		}
		if c.synced {
			c.nSync++
			c.observe()
			if c.done() {
				break
			}
			if c.nTimers > c.timerBudget() {
				r.note("TIMER-BUDGET exhausted: %d timer firings in the synchronous phase", c.nTimers)
				break
			}
		}
	}
	fmt.Fprintln(c.out.sched, "end")
	r.mu.Lock()
	r.logLocked("SYNCEND synced=%d decisions=%d timers=%d timerbudget=%d done=%d vt=%d", b2i(c.synced), c.nSync, c.nTimers, c.timerBudget(), b2i(c.synced && c.done()), c.vnow)
	r.mu.Unlock()
	for _, n := range r.nodes {
		if n.honest {
			r.stopNode(n)
			n.acc.Close()
		}
	}
}

// c05ScenPipelined: the directed prefix for `pipelined threshold events` (player.enterRound).  Four honest nodes, T = 3.  Node X = 3
// hears nothing while A, B, C commit round r; in round r+1 (period 0) it receives the proposals and all soft and cert votes of
// A, B, C while it is still in round r: its vote tracker of round r+1 collects a cert threshold, its proposal store the payload —
// pipelined.  A, B, C commit r+1.  Then the synchrony point: X receives round r's messages, commits r, enters r+1 — and must
// commit r+1 at once from what it holds (variant 0).  Variant 1: A, B, C see no proposal in r+1, time out and next-vote ⊥; X
// holds a pipelined next threshold of (r+1, 0) and must be in period 1 as soon as it enters the round.
func c05ScenPipelined(variant int) func(c *c05Run, s *ndScen) {
	return func(c *c05Run, s *ndScen) {
		r := s.r
		X := 3
		others := []int{0, 1, 2}
		rnd := r.start
		among := func(m *ndMsg, in ndInfo) bool { return m.dst != X && m.src != X && in.round == rnd }
		flush := func(pred func(m *ndMsg, in ndInfo) bool) {
			for k := 0; k < 12 && s.deliver(pred) > 0; k++ {
			}
		}
		// round r among A, B, C only
		flush(func(m *ndMsg, in ndInfo) bool { return among(m, in) && in.kind == 'P' })
		for _, a := range others {
			s.do("t %d", a)
		}
		flush(among)
		// round r+1
		next := rnd + 1
		toAll := func(m *ndMsg, in ndInfo) bool { return m.src != X && in.round == next }
		if variant == 0 {
			flush(func(m *ndMsg, in ndInfo) bool { return toAll(m, in) && in.kind == 'P' })
			for _, a := range others {
				s.do("t %d", a)
			}
			flush(toAll)
		} else {
			for _, a := range others {
				s.do("t %d", a) // filter timeout without any proposal: no soft vote
			}
			for _, a := range others {
				s.do("t %d", a) // deadline: next vote ⊥
			}
			flush(func(m *ndMsg, in ndInfo) bool { return toAll(m, in) && in.kind == 'V' && m.dst == X })
		}
		r.note("SCENARIO pipelined variant=%d X=%d", variant, X)
	}
}

// c05SplitCfg: one member of the directed family `two next quorums of one period, seen by different minorities`.
type c05SplitCfg struct {
	n       int
	honest  []bool
	A, B, C []int // A sees the ⊥ next quorum of step sb, C the value next quorum of step sv, B follows A's re-broadcast bundle
	sb, sv  step
}

// c05SplitFamily: node counts 4..7 (a silent-after-GST Byzantine node where the arithmetic needs one: it only contributes one
// honest-looking value vote to the late quorum), ⊥ quorum at step sb ∈ 4..7, value quorum gap ∈ {2,3} steps later.
// Sizes: |A ∪ B| < T and |C| < T (neither side can conclude period p+1 alone), honest − |A| + F ≥ T (the value quorum forms).
func c05SplitFamily() []c05SplitCfg {
	base := []c05SplitCfg{
		{n: 4, honest: []bool{true, true, true, true}, A: []int{0}, B: []int{1}, C: []int{2, 3}},
		{n: 5, honest: []bool{true, true, true, true, false}, A: []int{0}, B: []int{1}, C: []int{2, 3}},
		{n: 6, honest: []bool{true, true, true, true, true, true}, A: []int{0}, B: []int{1, 2}, C: []int{3, 4, 5}},
		{n: 7, honest: []bool{true, true, true, true, true, true, false}, A: []int{0, 1}, B: []int{2}, C: []int{3, 4, 5}},
		{n: 6, honest: []bool{true, true, true, true, true, true}, A: []int{0, 1}, B: []int{2}, C: []int{3, 4, 5}},
		{n: 4, honest: []bool{true, true, true, true}, A: []int{3}, B: []int{0}, C: []int{1, 2}},
	}
	var out []c05SplitCfg
	for _, b := range base {
		for sb := next + 1; sb <= next + 4; sb++ {
			for gap := step(2); gap <= 3; gap++ {
				c := b
				c.sb, c.sv = sb, sb+gap
				out = append(out, c)
			}
		}
	}
	return out
}

// c05ScenSplit: the directed asynchronous prefix (round r, period 0; all decisions go through the ordinary executor):
//  1. every honest node holds every proposal and soft-votes v at its filter timeout; the soft votes are delayed;
//  2. all time out through the next steps voting ⊥ (nothing staged); every next vote is lost except those of step sb, which reach
//     only A: A enters period 1 on the ⊥ quorum (period 0, step sb);
//  3. the delayed soft votes reach B ∪ C: v is staged, they next-vote v from now on; all lost except those of step sv ≥ sb+2
//     (plus, where needed, one vote of the Byzantine node), which reach only C: C enters period 1 with starting value v
//     (LastConcluding = sv);
//  4. A, alone in period 1, times out until it is `partitioned()` and re-broadcasts its freshest bundle (period 0, step sb, ⊥);
//     B receives it and follows into period 1.  The copies for C are still in flight.
// Synchrony point.  Period 1 is split A ∪ B (cache of period 0: ⊥) against C (cache: v), neither side reaches T: progress
// depends on C accepting the re-broadcast ⊥ bundle of the period it left at a later step.
func c05ScenSplit(k c05SplitCfg) func(c *c05Run, s *ndScen) {
	return func(c *c05Run, s *ndScen) {
		r := s.r
		rnd := r.start
		in := func(set []int, x int) bool {
			for _, y := range set {
				if y == x {
					return true
				}
			}
			return false
		}
		var hon, nonA []int
		for i, h := range k.honest {
			if h {
				hon = append(hon, i)
				if !in(k.A, i) {
					nonA = append(nonA, i)
				}
			}
		}
		voted := func(i int, per period, st step) bool {
			r.mu.Lock()
			defer r.mu.Unlock()
			return len(r.wireVotes[fmt.Sprintf("%d/%d/%d", rnd, per, st)][i]) > 0
		}
		drop := func(pred func(m *ndMsg, in ndInfo) bool) {
			r.mu.Lock()
			cand := []*ndMsg{}
			for _, m := range r.pending {
				if !m.consumed {
					cand = append(cand, m)
				}
			}
			r.mu.Unlock()
			for _, m := range cand {
				if !m.consumed && pred(m, r.info(m)) {
					s.do("x %s", m.key)
				}
			}
		}
		flush := func(pred func(m *ndMsg, in ndInfo) bool) {
			for j := 0; j < 12 && s.deliver(pred) > 0; j++ {
			}
		}
		fireUntilVoted := func(ids []int, per period, st step) {
			for _, i := range ids {
				for j := 0; j < 4 && !voted(i, per, st); j++ {
					s.do("t %d", i)
				}
			}
		}
		isNext := func(in ndInfo, per period) bool {
			return in.kind == 'V' && in.round == rnd && in.period == per && in.step >= next && in.step < late
		}
		// 1. proposals everywhere, soft votes delayed
		flush(func(m *ndMsg, in ndInfo) bool { return in.kind == 'P' || (in.kind == 'V' && in.step == propose) })
		for _, i := range hon {
			s.do("t %d", i)
		}
		// 2. next steps up to sb: ⊥ votes, all lost except step sb → A
		for st := next; st <= k.sb; st++ {
			fireUntilVoted(hon, 0, st)
			if st == k.sb {
				flush(func(m *ndMsg, inf ndInfo) bool { return isNext(inf, 0) && inf.step == k.sb && in(k.A, m.dst) })
			}
			drop(func(m *ndMsg, inf ndInfo) bool { return isNext(inf, 0) })
			drop(func(m *ndMsg, inf ndInfo) bool { return inf.kind == 'B' || inf.kind == 'P' })
		}
		// 3. the delayed soft votes reach B ∪ C; value next votes, all lost except step sv → C
		drop(func(m *ndMsg, inf ndInfo) bool { return inf.kind == 'V' && inf.step == soft && inf.period == 0 && in(k.A, m.dst) })
		flush(func(m *ndMsg, inf ndInfo) bool { return inf.kind == 'V' && inf.step == soft && inf.period == 0 })
		vtok := ""
		r.mu.Lock()
		for _, vs := range r.wireVotes[fmt.Sprintf("%d/0/%d", rnd, soft)] {
			if len(vs) > 0 {
				vtok = ndTok(vs[0].R.Proposal)
			}
		}
		r.mu.Unlock()
		for st := k.sb + 1; st <= k.sv; st++ {
			fireUntilVoted(nonA, 0, st)
			if st == k.sv {
				for b, h := range k.honest {
					if !h {
						s.do("bv %d %d 0 %d %s %s", b, rnd, k.sv, vtok, s.mask(k.C...))
					}
				}
				flush(func(m *ndMsg, inf ndInfo) bool { return isNext(inf, 0) && inf.step == k.sv && in(k.C, m.dst) })
			}
			drop(func(m *ndMsg, inf ndInfo) bool { return isNext(inf, 0) })
			drop(func(m *ndMsg, inf ndInfo) bool { return (inf.kind == 'B' || inf.kind == 'P') && !in(k.A, m.src) && inf.period == 0 })
		}
		// 4. A times out alone until it re-broadcasts the ⊥ bundle; B follows it
		bundleOut := func() bool {
			r.mu.Lock()
			defer r.mu.Unlock()
			for _, m := range r.pending {
				if !m.consumed && in(k.A, m.src) {
					if inf := r.info(m); inf.kind == 'B' && inf.period == 0 && inf.step == k.sb {
						return true
					}
				}
			}
			return false
		}
		for j := 0; j < 16 && !bundleOut(); j++ {
			for _, a := range k.A {
				s.do("t %d", a)
			}
		}
		flush(func(m *ndMsg, inf ndInfo) bool {
			return inf.kind == 'B' && inf.period == 0 && inf.step == k.sb && in(k.A, m.src) && in(k.B, m.dst)
		})
		st := func(ids []int) string {
			r.mu.Lock()
			defer r.mu.Unlock()
			x := []string{}
			for _, i := range ids {
				x = append(x, fmt.Sprintf("n%d:p%d/s%d", i, r.nodes[i].period, r.nodes[i].step))
			}
			return strings.Join(x, ",")
		}
		r.note("SCENARIO split n=%d sb=%d sv=%d value=%s A=[%s] B=[%s] C=[%s]", k.n, k.sb, k.sv, vtok, st(k.A), st(k.B), st(k.C))
	}
}

// c05AfterHandle: NetDrive's hook plus the monitor ACTED-ON-FRESHEST on the state the real code leaves after every handle: the
// freshest threshold event known to the vote tracker of the player's round has been acted on —
//
//	next threshold of period q  ⇒ player.Period > q          (handleThresholdEvent → enterPeriod(q+1))
//	soft / cert threshold of q  ⇒ player.Period ≥ q          (fast-forward)
//	cert threshold for v and the payload of v assembled ⇒ the player has left the round (ensureAction)
//
// — also when the threshold was collected while the player was still in the previous round (`pipelined threshold events`,
// player.enterRound: the freshest bundle of the new round is handled right after entering it).  A lost pipelined event does not
// show as "no progress" in a harness with a catch-up service (the node is carried on by its peers' ledgers), so the state is
// monitored directly.  One PIPELINE line per (node, round).
var c05PipelineSeen = map[string]bool{}

func c05AfterHandle(s *Service, router *rootRouter, status *player, e externalEvent, a []action) {
	ndAfterHandle(s, router, status, e, a)
	v, ok := ndReg.Load(s)
	if !ok {
		return
	}
	n := v.(*ndNode)
	rr := router.Children[status.Round]
	if rr == nil || !rr.VoteTrackerRound.Ok {
		return
	}
	f := rr.VoteTrackerRound.Freshest
	if f.Round != status.Round {
		return
	}
	what := ""
	switch f.T {
	case nextThreshold:
		if status.Period <= f.Period {
			what = "next-threshold-not-entered"
		}
	case softThreshold:
		if status.Period < f.Period {
			what = "soft-threshold-not-entered"
		}
	case certThreshold:
		if ea, has := rr.ProposalStore.Assemblers[f.Proposal]; has && ea.Assembled {
			what = "committable-certificate-not-committed"
		} else if status.Period < f.Period {
			what = "cert-threshold-not-entered"
		}
	}
	if what == "" {
		return
	}
	r := n.run
	r.mu.Lock()
	key := fmt.Sprintf("%p/%d/%d", r, n.id, status.Round)
	if !c05PipelineSeen[key] {
		c05PipelineSeen[key] = true
		r.logLocked("PIPELINE node=%d gen=%d round=%d period=%d step=%d fresh=%d freshperiod=%d freshstep=%d val=%s what=%s event=%T", n.id, n.gen, status.Round, status.Period, status.Step,
			f.T, f.Period, f.Step, ndTok(f.Proposal), what, e)
	}
	r.mu.Unlock()
}

func TestVerifC05(t *testing.T) {
	t.Chdir(t.TempDir())
	logging.Base().SetOutput(io.Discard)
	ndInstallHooks()
	verifNDAfterHandle = c05AfterHandle
	defer func() { verifNDAtStart, verifNDAfterHandle = nil, nil }()
	out := ndOpenFiles()
	defer out.close()

	var cfgs []ndConfig
	var runs []*c05Run
	var decs [][]string
	if p := os.Getenv("VERIF_REPLAY"); p != "" {
		cs, ds, err := ndReadReplay(p)
		if err != nil {
			t.Fatal(err)
		}
		for i, cfg := range cs {
			cfg.rounds = 1 << 20
			cfg.maxSteps = len(ds[i]) + 1 + c05DecisionCap(cfg.n)
			cfgs = append(cfgs, cfg)
			runs = append(runs, &c05Run{rng: vh.NewRng(cfg.seed + 99), sendAt: map[string]time.Duration{}, mode: "nd"})
			decs = append(decs, ds[i])
		}
	} else {
		count := ndEnvInt("VERIF_C05_SCHEDULES", vh.Budget(24, 1200))
		from := ndEnvInt("VERIF_C05_FROM", 0)
		if from == 0 && os.Getenv("VERIF_C05_NOSCEN") == "" {
			for v := 0; v < 2; v++ {
				cfg := ndConfig{id: 9000 + v, seed: vh.Seed()*17 + uint64(v), n: 4, w: []uint64{1, 1, 1, 1}, honest: []bool{true, true, true, true}, T: 3,
					rounds: 1 << 20, maxSteps: c05DecisionCap(4), profile: fmt.Sprintf("scenario-pipelined%d", v)}
				c := &c05Run{rng: vh.NewRng(cfg.seed + 5), sendAt: map[string]time.Duration{}, mode: []string{"ls", "vt"}[v], script: c05ScenPipelined(v)}
				cfgs = append(cfgs, cfg)
				runs = append(runs, c)
				decs = append(decs, nil)
			}
			// the split-quorum family: everything in the thorough tier, a seed-dependent selection (one per base shape) in the quick tier
			fam := c05SplitFamily()
			for idx, k := range fam {
				if !vh.Thorough() && idx%8 != int((vh.Seed()+uint64(idx/8)*3)%8) {
					continue
				}
				cfg := ndConfig{id: 9100 + idx, seed: vh.Seed()*31 + uint64(idx), n: k.n, w: make([]uint64, k.n), honest: k.honest,
					rounds: 1 << 20, maxSteps: c05DecisionCap(k.n), profile: fmt.Sprintf("scenario-split-n%d-sb%d-sv%d", k.n, k.sb, k.sv)}
				for i := range cfg.w {
					cfg.w[i] = 1
				}
				W, F := cfg.W()
				cfg.T = (W+F)/2 + 1
				mode := []string{"vt", "ls"}[(idx+int(vh.Seed()))%2]
				c := &c05Run{rng: vh.NewRng(cfg.seed + 5), sendAt: map[string]time.Duration{}, mode: mode, script: c05ScenSplit(k)}
				c.delta = []time.Duration{0, 50 * time.Millisecond}[idx%2]
				cfgs = append(cfgs, cfg)
				runs = append(runs, c)
				decs = append(decs, nil)
			}
		}
		for i := from; i < count; i++ {
			cfg, c := c05Plan(vh.Seed(), i, vh.Thorough())
			cfgs = append(cfgs, cfg)
			runs = append(runs, c)
			decs = append(decs, nil)
		}
	}
	for _, c := range cfgs {
		W, _ := c.W()
		ndProto(W, c.T)
	}
	for i, cfg := range cfgs {
		r := ndNewRun(t, cfg, decs[i])
		if err := r.checkWeights(); err != nil {
			t.Fatalf("schedule %d: committee weights are not the stakes: %v", cfg.id, err)
		}
		c := runs[i]
		c.r, c.out = r, out
		finished := make(chan struct{})
		go func() {
			defer close(finished)
			defer func() {
				if x := recover(); x != nil {
					r.note("HARNESS-PANIC %v", x)
				}
			}()
			c.execute()
		}()
		select {
		case <-finished:
		case <-time.After(8 * time.Minute):
			r.note("SCHEDULE-TIMEOUT")
			fmt.Fprintf(os.Stderr, "c05: schedule %d timed out\n", cfg.id)
		}
		r.write(out)
		if r.fatal != "" {
			t.Fatalf("schedule %d: %s", cfg.id, r.fatal)
		}
	}
}

// ---------------------------------------------------------------------------------------------- single-node tie

// TestVerifC05Player: the reaction functions of Spec.AgreementSync (softValue / nextValue / fastVote / partitioned — what an honest
// node votes and re-broadcasts on a timeout) against ONE real player + rootRouter, driven through rootRouter.submitTop by
// PlayerDrive's executor (zz_verif_player_test.go: verified votes / proposal-votes / payloads, `t` = step timeout, `ft` = fast
// timeout).  Exhaustive small universe: how the node entered its period (period 0 | next quorum for ⊥ | for a value y | both) ×
// the period's leader (none | a fresh proposal | the re-proposal of y) × what is staged when the deadline expires (nothing | the
// soft-voted value | another value) × whether the staged value's payload is held.  For every case the harness prints the abstract
// situation as an op line (see lean/AlgoVerif/Driver/C05.lean) and what the real player did as the result line; the Lean driver
// `c05` answers the same op lines from the model.  Also on the implementation alone: over a long run of step timeouts the deadline
// strictly increases (`deadline-increase` lines, result `ok`).
func TestVerifC05Player(t *testing.T) {
	logging.Base().SetOutput(io.Discard)
	logging.Base().SetLevel(logging.Error)
	y := verifPlSyms()
	x := &verifPlExec{y: y, tr: &tracer{log: serviceLogger{logging.Base()}}, delivered: map[string]uint64{}}
	out := vh.Open("c05p")
	defer out.Close()
	q := verifPlParams{softT: 3, certT: 3, nextT: 3, lateT: 3, redoT: 3, downT: 3}
	const R = 1
	const Y, Z, U0, U1 = 11, 12, 14, 1013 // values of round 1: Y, Z, U0 original period 0; U1 original period 1
	attest := func(res string, wantStep func(uint64) bool) (string, bool) {
		// first attest action of the result line whose step satisfies wantStep → "<step> <value>"
		acts := strings.SplitN(res, " | ", 2)[0]
		for _, a := range strings.Split(acts, "; ") {
			f := strings.Fields(a)
			if len(f) == 5 && f[0] == "attest" {
				if s := vh.U(f[3]); wantStep(s) {
					return f[3] + " " + f[4], true
				}
			}
		}
		return "", false
	}
	has := func(res, prefix string) bool {
		acts := strings.SplitN(res, " | ", 2)[0]
		for _, a := range strings.Split(acts, "; ") {
			if strings.HasPrefix(a, prefix) {
				return true
			}
		}
		return false
	}
	valStr := func(v string) string {
		if v == "0" {
			return "bot"
		}
		return v
	}
	tok := func(v uint64) string {
		if v == 0 {
			return "-"
		}
		return fmt.Sprint(v)
	}
	run := func(op string) string {
		res := x.exec(op)
		if strings.Contains(res, "PANIC") || res == "bad-op" || res == "DEAD" {
			t.Fatalf("op %q: %s", op, res)
		}
		return res
	}
	quorum := func(p, s, val uint64, firstSender uint64) {
		for k := uint64(0); k < 3; k++ {
			run(fmt.Sprintf("v 1 0 %d %d %d %d 1 %d", R, p, s, firstSender+k, val))
		}
	}
	cases := 0
	for entry := 0; entry < 4; entry++ { // 0: period 0; 1: ⊥ quorum; 2: quorum for Y; 3: both
		for leader := 0; leader < 3; leader++ { // 0 none, 1 fresh proposal, 2 re-proposal of Y
			for staged := 0; staged < 3; staged++ { // 0 nothing, 1 the soft-voted value (if any), 2 Z
				for avail := 0; avail < 2; avail++ {
					per := uint64(0)
					if entry > 0 {
						per = 1
					}
					bottomC, propC := entry == 1 || entry == 3, uint64(0)
					if entry >= 2 {
						propC = Y
					}
					if leader == 2 && propC != Y {
						continue // the re-proposal restriction is folded into the model's `leader`
					}
					run(verifPlResetLine(q, R, 0, uint64(soft)))
					switch entry {
					case 1:
						quorum(0, uint64(next), 0, 1)
					case 2:
						quorum(0, uint64(next), Y, 1)
					case 3:
						quorum(0, uint64(next), 0, 1)
						quorum(0, uint64(redo), Y, 4)
					}
					var lead uint64
					switch leader {
					case 1:
						lead = U0
						if per == 1 {
							lead = U1
						}
					case 2:
						lead = Y
					}
					if lead != 0 {
						run(fmt.Sprintf("pv 1 0 9 %d %d %d 3 0 -", R, per, lead))
						run(fmt.Sprintf("pl 1 0 %d %d 0", lead, R))
					}
					// ---- filter timeout
					res := run("t 5")
					got := "soft none"
					softVoted := uint64(0)
					if a, ok := attest(res, func(s uint64) bool { return s == uint64(soft) }); ok {
						got = "soft " + strings.Fields(a)[1]
						softVoted = vh.U(strings.Fields(a)[1])
					}
					out.Emit(fmt.Sprintf("soft %d %s %s", b2i(bottomC), tok(propC), tok(lead)), got)
					// ---- what is staged when the deadline expires
					var st uint64
					switch staged {
					case 1:
						st = softVoted
					case 2:
						st = Z
					}
					if staged == 1 && st == 0 {
						continue
					}
					if st != 0 {
						quorum(per, uint64(soft), st, 1)
						if avail == 1 {
							run(fmt.Sprintf("pl 1 0 %d %d 0", st, R))
						}
					}
					held := avail == 1 || (st != 0 && st == lead) // the leader's payload was delivered with its proposal
					// ---- deadline
					res = run("t 5")
					got = "next none"
					if a, ok := attest(res, func(s uint64) bool { return s == uint64(next) }); ok {
						got = "next " + valStr(strings.Fields(a)[1])
					}
					out.Emit(fmt.Sprintf("next %d %d %s %s %d", per, b2i(bottomC), tok(propC), tok(st), b2i(held)), got)
					// ---- fast recovery: the first fast timeout only arms the timer
					run("ft 7")
					res = run("ft 7")
					got = "fast none"
					if a, ok := attest(res, func(s uint64) bool { return s >= uint64(late) }); ok {
						f := strings.Fields(a)
						name := map[uint64]string{uint64(late): "late", uint64(redo): "redo", uint64(down): "down"}[vh.U(f[0])]
						got = "fast " + name + " " + valStr(f[1])
					}
					out.Emit(fmt.Sprintf("fast %d %d %s %s %d", per, b2i(bottomC), tok(propC), tok(st), b2i(held)), got)
					// ---- partitionPolicy: the freshest bundle is re-broadcast with the next votes from step next+3 on
					if st != 0 || entry > 0 {
						for k := 0; k < 8; k++ {
							res = run("t 5")
							pl := strings.SplitN(res, " | ", 2)[1]
							var stepNow, perNow uint64
							fmt.Sscanf(pl[strings.Index(pl, "P="):], "P=%d S=%d", &perNow, &stepNow)
							if _, voted := attest(res, func(s uint64) bool { return s >= uint64(next) && s < uint64(late) }); voted {
								out.Emit(fmt.Sprintf("rebroadcast %d %d", stepNow, perNow), "rebroadcast "+fmt.Sprint(b2i(has(res, "bcastBundle"))))
							}
						}
					}
					cases++
				}
			}
		}
	}
	// ---- bundleFresh (agreement/voteAggregator.go) on a grid: the model accepts a bundle of the node's round iff it is a cert
	// bundle or its period is ≥ player period - 1 — whatever its step, the node's step and the step at which the node left the
	// previous period (LastConcluding).  The synchronous phase needs exactly that: a node that entered p on a late quorum
	// must still accept the re-broadcast bundle of an earlier quorum of p-1.
	bsteps := []step{soft, cert, next, next + 1, next + 2, next + 3, next + 4, next + 5, next + 7, next + 9, late, redo, down}
	for pp := period(0); pp <= 4; pp++ {
		for _, lc := range append([]step{0}, bsteps...) {
			for _, ps := range []step{soft, next + 3} {
				for br := round(4); br <= 6; br++ {
					for bp := period(0); bp <= 5; bp++ {
						for _, bs := range bsteps {
							err := bundleFresh(freshnessData{PlayerRound: 5, PlayerPeriod: pp, PlayerStep: ps, PlayerLastConcluding: lc},
								unauthenticatedBundle{Round: br, Period: bp, Step: bs})
							out.Emit(fmt.Sprintf("bfresh 5 %d %d %d %d %d %d", pp, lc, ps, br, bp, bs), "bfresh "+fmt.Sprint(b2i(err == nil)))
						}
					}
				}
			}
		}
	}
	// ---- deadlines increase (implementation alone): 30 step timeouts in period 0 and in period 1
	for _, per := range []uint64{0, 1} {
		run(verifPlResetLine(q, R, 0, uint64(soft)))
		if per == 1 {
			quorum(0, uint64(next), 0, 1)
		}
		last := int64(-1)
		verdict := "ok"
		for k := 0; k < 30; k++ {
			res := run(fmt.Sprintf("t %d", 1000003*k+17))
			pl := strings.SplitN(res, " | ", 2)[1]
			var d, ty int64
			fmt.Sscanf(pl[strings.Index(pl, "D="):], "D=%d/%d", &d, &ty)
			if d <= last {
				verdict = fmt.Sprintf("DECREASE at timeout %d: %d ns after %d ns (%s)", k, d, last, pl)
				break
			}
			last = d
		}
		out.Emit(fmt.Sprintf("deadline-increase %d", per), verdict)
	}
	t.Logf("c05 player tie: %d cases", cases)
}
