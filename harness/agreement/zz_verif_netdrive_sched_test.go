//go:build verif

package agreement

// NetDrive, part 3: the schedule.  One decision per line; the generator (PRNG) and a replay file feed the same executor.
//
//	d <key>                      deliver the pending message <key>      key = <src>><dst>:<V|P|B>:<hash10>#<k>
//	x <key>                      drop it
//	u <key>                      deliver it and keep it pending (duplicate)
//	t <n>                        fire node n's pending step deadline (filter / deadline timeout)
//	f <n>                        fire node n's fast-recovery timeout
//	part <b0b1…>                 partition: nodes with the same bit can talk          heal
//	crash <n>                    Shutdown at a quiescent point, new Service on the same crash DB and ledger
//	crashmid <n> <key>           deliver <key> to n and shut n down without waiting for quiescence (not deterministic)
//	hold <n>                     stall n's persistence loop (attests are produced but not persisted, votes not released)
//	cu <n>                       catch-up: n's ledger receives the next block from a node that committed it
//	bv <b> <r> <p> <step> <val> <mask>     Byzantine node b signs a vote with its real keys and sends it to <mask>
//	bb <b> <r> <p> <step> <val> <mask>     … a bundle built from all votes seen on the wire for (r,p,step,val) + b's equivocations
//	bp <b> <r> <p> <variant> <mask>        … a proposal (vote + payload) for its own block number <variant>
//	bpv <b> <r> <p> <val> <mask>           … a stand-alone proposal-vote of period p for a value seen on the wire (a re-proposal when p > its original period)
//	bpl <b> <r> <p> <val> <mask>           … the payload of a value seen on the wire, without a prior vote (as partitionPolicy re-broadcasts it)

import (
	"fmt"
	"strconv"
	"strings"
	"time"

	"github.com/algorand/go-algorand/data/basics"
	"github.com/algorand/go-algorand/protocol"
)

const ndMaxStep = step(18)

type ndProfile struct {
	drop, dup, early, fast, crash, crashmid, hold, part, heal, byz, catchup int // per mille
	maxCrashes                                                              int
	stall                                                                   bool // fast timeouts allowed at any step
	latepay                                                                 bool // late-payload family, see ndLatePay
}

func ndProfileOf(name string) ndProfile {
	switch name {
	case "sync":
		return ndProfile{catchup: 5}
	case "async":
		return ndProfile{drop: 30, dup: 20, early: 40, fast: 5, catchup: 10}
	case "lossy":
		return ndProfile{drop: 250, dup: 20, early: 30, fast: 10, catchup: 20}
	case "part":
		return ndProfile{drop: 20, early: 30, fast: 10, part: 15, heal: 30, catchup: 20}
	case "crash":
		return ndProfile{drop: 30, early: 30, fast: 5, crash: 25, crashmid: 6, hold: 10, maxCrashes: 6, catchup: 20}
	case "byz":
		return ndProfile{drop: 30, dup: 10, early: 30, fast: 5, byz: 80, catchup: 10}
	case "latepay":
		return ndProfile{dup: 10, early: 10, fast: 3, byz: 25, catchup: 10, latepay: true}
	case "stall":
		return ndProfile{drop: 30, early: 60, fast: 80, byz: 60, crash: 10, maxCrashes: 3, catchup: 10, stall: true}
	default: // mixed
		return ndProfile{drop: 60, dup: 15, early: 40, fast: 8, crash: 12, crashmid: 3, hold: 5, maxCrashes: 4, part: 6, heal: 30, byz: 50, catchup: 15}
	}
}

// ---------------------------------------------------------------------------------------------- generator

func (r *ndRun) honestIDs() []int {
	ids := []int{}
	for _, n := range r.nodes {
		if n.honest {
			ids = append(ids, n.id)
		}
	}
	return ids
}

func (r *ndRun) byzIDs() []int {
	ids := []int{}
	for _, n := range r.nodes {
		if !n.honest {
			ids = append(ids, n.id)
		}
	}
	return ids
}

func (r *ndRun) sameSide(a, b int) bool {
	if r.part == nil || !r.cfg.honest[a] || !r.cfg.honest[b] {
		return true
	}
	return r.part[a] == r.part[b]
}

// candidates: pending messages that may be delivered now; fresh = not yet delivered (tag, data) at the destination.
func (r *ndRun) candidates() (fresh, dups []*ndMsg) {
	r.mu.Lock()
	defer r.mu.Unlock()
	live := r.pending[:0]
	for _, m := range r.pending {
		if m.consumed {
			continue
		}
		live = append(live, m)
		if !r.sameSide(m.src, m.dst) || r.heldBusyLocked(m.dst) || r.lpWithheldLocked(m) {
			continue
		}
		if r.delivered[m.dst][m.hash] {
			dups = append(dups, m)
		} else {
			fresh = append(fresh, m)
		}
	}
	r.pending = live
	return
}

func (r *ndRun) generate() string {
	if len(r.genQueue) > 0 {
		l := r.genQueue[0]
		r.genQueue = r.genQueue[1:]
		return l
	}
	p := ndProfileOf(r.cfg.profile)
	if p.latepay {
		if l := r.lpStep(); l != "" {
			return l
		}
	}
	fresh, dups := r.candidates()
	hon := r.honestIDs()
	byz := r.byzIDs()
	x := r.rng.Intn(1000)
	acc := 0
	hit := func(pm int) bool { acc += pm; return x < acc }
	switch {
	case len(byz) > 0 && hit(p.byz):
		if l := r.genByz(byz[r.rng.Intn(len(byz))]); l != "" {
			return l
		}
	case r.stats.crashes < p.maxCrashes && hit(p.crash):
		if n := hon[r.rng.Intn(len(hon))]; r.mayCrash(n) {
			return fmt.Sprintf("crash %d", n)
		}
	case r.stats.crashes < p.maxCrashes && len(fresh) > 0 && hit(p.crashmid):
		if m := fresh[r.rng.Intn(len(fresh))]; r.mayCrash(m.dst) {
			return fmt.Sprintf("crashmid %d %s", m.dst, m.key)
		}
	case r.stats.crashes < p.maxCrashes && hit(p.hold):
		return fmt.Sprintf("hold %d", hon[r.rng.Intn(len(hon))])
	case r.part == nil && len(hon) >= 3 && hit(p.part):
		bits := make([]byte, r.cfg.n)
		for i := range bits {
			bits[i] = '0' + byte(r.rng.Intn(2))
		}
		return "part " + string(bits)
	case r.part != nil && hit(p.heal):
		return "heal"
	case len(fresh) > 0 && hit(p.early):
		if n := r.pickTimer(hon); n >= 0 {
			return fmt.Sprintf("t %d", n)
		}
	case hit(p.fast):
		if n := r.pickFast(hon, p.stall); n >= 0 {
			return fmt.Sprintf("f %d", n)
		}
	case hit(p.catchup):
		if n := r.pickCatchup(hon); n >= 0 {
			return fmt.Sprintf("cu %d", n)
		}
	}
	if len(fresh) == 0 {
		if len(dups) > 0 && r.rng.Intn(100) < 10 {
			return "d " + dups[r.rng.Intn(len(dups))].key
		}
		if r.part != nil && r.rng.Intn(100) < 30 {
			return "heal"
		}
		if n := r.pickCatchup(hon); n >= 0 && r.rng.Intn(100) < 25 {
			return fmt.Sprintf("cu %d", n)
		}
		if n := r.pickTimer(hon); n >= 0 {
			return fmt.Sprintf("t %d", n)
		}
		if r.part != nil {
			return "heal"
		}
		if len(dups) > 0 {
			return "d " + dups[r.rng.Intn(len(dups))].key
		}
		return "end"
	}
	if len(dups) > 0 && r.rng.Intn(1000) < p.dup {
		return "d " + dups[r.rng.Intn(len(dups))].key
	}
	var m *ndMsg
	if r.rng.Intn(2) == 0 {
		k := len(fresh)
		if k > 12 {
			k = 12
		}
		m = fresh[r.rng.Intn(k)]
	} else {
		m = fresh[r.rng.Intn(len(fresh))]
	}
	y := r.rng.Intn(1000)
	switch {
	case y < p.drop:
		return "x " + m.key
	case y < p.drop+p.dup:
		return "u " + m.key
	}
	return "d " + m.key
}

// pickTimer: when nothing can be delivered some clock must advance; mostly the node that is furthest behind (the one whose
// deadline would expire first in real time), sometimes any node.
//
// Step deadlines double with every next step (2 s · 2^k): a node at step ≥ ndMaxStep would have waited for weeks, and
// nextVoteRanges overflows int64 from step ≈ 36 (division by zero in player.handle at step 57) — real time never gets
// there, so the harness does not fire deadlines of such nodes.  -1: no clock may advance.
func (r *ndRun) pickTimer(hon []int) int {
	r.mu.Lock()
	defer r.mu.Unlock()
	ok := []int{}
	for _, id := range hon {
		if r.nodes[id].step < ndMaxStep && !r.heldBusyLocked(id) {
			ok = append(ok, id)
		}
	}
	hon = ok
	if len(hon) == 0 {
		return -1
	}
	if r.rng.Intn(100) < 30 {
		return hon[r.rng.Intn(len(hon))]
	}
	best := []int{}
	for _, id := range hon {
		n := r.nodes[id]
		if len(best) > 0 {
			b := r.nodes[best[0]]
			if n.round > b.round || (n.round == b.round && (n.period > b.period || (n.period == b.period && n.step > b.step))) {
				continue
			}
			if n.round != b.round || n.period != b.period || n.step != b.step {
				best = best[:0]
			}
		}
		best = append(best, id)
	}
	return best[r.rng.Intn(len(best))]
}

// pickFast: the first fast timeout of a period (deadline 0) fires at once in real time; later ones only after
// FastRecoveryLambda — normally when the node has long left the soft and cert steps, but a node that was stalled or down
// for that long handles it at whatever step it is in (demux.next selects at random among the ready timers).  With
// VERIF_ND_TIMER_ORDER=1 only the first case is generated.
func (r *ndRun) pickFast(hon []int, stall bool) int {
	r.mu.Lock()
	defer r.mu.Unlock()
	ok := []int{}
	for _, id := range hon {
		n := r.nodes[id]
		if (stall || !ndTimerOrder || n.fastDl == 0 || n.step > cert) && !r.heldBusyLocked(id) {
			ok = append(ok, id)
		}
	}
	if len(ok) == 0 {
		return -1
	}
	return ok[r.rng.Intn(len(ok))]
}

func (r *ndRun) pickCatchup(hon []int) int {
	var maxNext basics.Round
	for _, id := range hon {
		if nr := r.nodes[id].ledger.NextRound(); nr > maxNext {
			maxNext = nr
		}
	}
	behind := []int{}
	for _, id := range hon {
		if r.nodes[id].ledger.NextRound() < maxNext && r.nodes[id].heldGate() == nil {
			behind = append(behind, id)
		}
	}
	if len(behind) == 0 {
		return -1
	}
	return behind[r.rng.Intn(len(behind))]
}

// heldBusyLocked: a node whose persistence is stalled (`hold`) can take two more attests (one in the persistence loop, one
// in its queue); a third would block its demux loop inside Enqueue.  The generator leaves such a node alone until it is
// crashed or released.
func (r *ndRun) heldBusyLocked(id int) bool {
	n := r.nodes[id]
	if !n.honest || n.heldGate() == nil {
		return false
	}
	k := 0
	for _, ev := range n.attests {
		if ev.gen == n.gen && !ev.persist {
			k++
		}
	}
	return k >= 2
}

// mayCrash: with VERIF_ND_NODOUBLE=1 a restarted node is not crashed again before an attest of its new incarnation has
// been persisted (keeps the schedules away from the crash-state wipe on double crashes, see the C01 report).
func (r *ndRun) mayCrash(id int) bool {
	if !ndNoDouble {
		return true
	}
	r.mu.Lock()
	defer r.mu.Unlock()
	n := r.nodes[id]
	return n.gen <= 1 || n.persistedInGen
}

func (r *ndRun) randMask(nonEmpty bool) string {
	for {
		bits := make([]byte, r.cfg.n)
		any := false
		for i := range bits {
			bits[i] = '0'
			if r.cfg.honest[i] && r.rng.Intn(3) > 0 {
				bits[i] = '1'
				any = true
			}
		}
		if any || !nonEmpty {
			return string(bits)
		}
	}
}

func ndComplement(mask string, honest []bool) string {
	b := []byte(mask)
	for i := range b {
		if b[i] == '1' || !honest[i] {
			b[i] = '0'
		} else {
			b[i] = '1'
		}
	}
	return string(b)
}

// genByz: an adversarial action of Byzantine node b in the round and period of some honest node.
func (r *ndRun) genByz(b int) string {
	hon := r.honestIDs()
	r.mu.Lock()
	ref := r.nodes[hon[r.rng.Intn(len(hon))]]
	rnd, per := ref.round, ref.period
	vals := append([]proposalValue{}, r.values[rnd]...)
	r.mu.Unlock()
	if rnd == 0 {
		return ""
	}
	if r.rng.Intn(4) == 0 && per > 0 {
		per--
	}
	if len(vals) > 0 && r.rng.Intn(5) == 0 {
		// proposal traffic a relay may legitimately produce: a re-proposal vote for the next (or current) period, a payload
		// without its proposal-vote, and — queued behind them — the Byzantine node's own fresh proposal of that period
		// (a lower credential replaces the re-proposal in the period's proposal tracker)
		v := ndTok(vals[r.rng.Intn(len(vals))])
		m := r.randMask(true)
		q := per + period(r.rng.Intn(2))
		switch r.rng.Intn(3) {
		case 0:
			return fmt.Sprintf("bpl %d %d %d %s %s", b, rnd, per, v, m)
		case 1:
			r.genQueue = append(r.genQueue, fmt.Sprintf("bpl %d %d %d %s %s", b, rnd, per, v, m))
			return fmt.Sprintf("bpv %d %d %d %s %s", b, rnd, q, v, m)
		default:
			if others := r.byzIDs(); len(others) > 1 {
				o := others[r.rng.Intn(len(others))]
				if o != b {
					r.genQueue = append(r.genQueue, fmt.Sprintf("bp %d %d %d %d %s", o, rnd, q, 1+r.rng.Intn(3), m))
				}
			}
			return fmt.Sprintf("bpv %d %d %d %s %s", b, rnd, q, v, m)
		}
	}
	k := r.rng.Intn(10)
	if per > 0 && k < 5 {
		k = 0 // fresh proposals in later periods compete with the re-proposed starting value
	}
	switch {
	case k < 2 || len(vals) == 0:
		r.stats.byzProps++
		return fmt.Sprintf("bp %d %d %d %d %s", b, rnd, per, 1+r.rng.Intn(3), r.randMask(true))
	case k < 8:
		steps := []step{soft, soft, cert, cert, next, next, next + 1, next + 2, late, redo, down}
		s := steps[r.rng.Intn(len(steps))]
		pick := func() string {
			switch s {
			case down:
				return "bot"
			case soft, cert, late, redo:
				return ndTok(vals[r.rng.Intn(len(vals))])
			}
			if r.rng.Intn(3) == 0 {
				return "bot"
			}
			return ndTok(vals[r.rng.Intn(len(vals))])
		}
		v1 := pick()
		m1 := r.randMask(true)
		line := fmt.Sprintf("bv %d %d %d %d %s %s", b, rnd, per, s, v1, m1)
		if r.rng.Intn(2) == 0 { // equivocate: another value to the others (or to everybody)
			v2 := pick()
			if v2 != v1 {
				m2 := ndComplement(m1, r.cfg.honest)
				if r.rng.Intn(3) == 0 || !strings.Contains(m2, "1") {
					m2 = r.randMask(true)
				}
				r.genQueue = append(r.genQueue, fmt.Sprintf("bv %d %d %d %d %s %s", b, rnd, per, s, v2, m2))
			}
		}
		return line
	default:
		steps := []step{soft, cert, next, late, redo, down}
		s := steps[r.rng.Intn(len(steps))]
		v := "bot"
		if s != down && (s < next || s >= late || r.rng.Intn(2) == 0) {
			v = ndTok(vals[r.rng.Intn(len(vals))])
		}
		return fmt.Sprintf("bb %d %d %d %d %s %s", b, rnd, per, s, v, r.randMask(true))
	}
}

// ---------------------------------------------------------------------------------------------- executor

func (r *ndRun) lookup(key string) *ndMsg {
	r.mu.Lock()
	defer r.mu.Unlock()
	m := r.byKey[key]
	if m == nil || m.consumed {
		return nil
	}
	return m
}

func (r *ndRun) deliver(m *ndMsg, keep bool) {
	n := r.nodes[m.dst]
	r.qmu.Lock()
	alive, mon := n.alive, n.monitor
	r.qmu.Unlock()
	r.mu.Lock()
	if !keep {
		m.consumed = true
	}
	r.delivered[m.dst][m.hash] = true
	r.mu.Unlock()
	if !alive || !n.honest {
		return
	}
	r.net.mu.Lock()
	if !r.net.connected[m.src][m.dst] {
		r.net.mu.Unlock()
		r.note("DISCONNECTED %d-%d message %s not delivered", m.src, m.dst, m.key)
		return
	}
	r.net.nextHandle++
	h := new(int)
	*h = r.net.nextHandle
	r.net.source[h] = nodeID(m.src)
	var ch chan Message
	switch m.tag {
	case protocol.AgreementVoteTag:
		ch = r.net.voteMessages[m.dst]
	case protocol.ProposalPayloadTag:
		ch = r.net.payloadMessages[m.dst]
	default:
		ch = r.net.bundleMessages[m.dst]
	}
	r.net.mu.Unlock()
	mon.inc(tokenizerCoserviceType)
	select {
	case ch <- Message{MessageHandle: h, Data: m.data}:
	default:
		mon.dec(tokenizerCoserviceType)
		r.note("CHANNEL-FULL dst=%d", m.dst)
	}
}

func (r *ndRun) diverged(line string) {
	r.stats.diverged++
	r.note("REPLAY-DIVERGED decision `%s` cannot be executed in this run", line)
}

func ndMask(s string, n int) []bool {
	m := make([]bool, n)
	for i := 0; i < n && i < len(s); i++ {
		m[i] = s[i] == '1'
	}
	return m
}

func (r *ndRun) exec(line string) {
	f := strings.Fields(line)
	if len(f) == 0 {
		return
	}
	num := func(i int) int {
		if i >= len(f) {
			return -1
		}
		v, err := strconv.Atoi(f[i])
		if err != nil {
			return -1
		}
		return v
	}
	node := func(i int, honest bool) *ndNode {
		k := num(i)
		if k < 0 || k >= len(r.nodes) || r.nodes[k].honest != honest {
			return nil
		}
		return r.nodes[k]
	}
	switch f[0] {
	case "d", "u", "x":
		if len(f) < 2 {
			return
		}
		m := r.lookup(f[1])
		if m == nil {
			r.diverged(line)
			return
		}
		switch f[0] {
		case "x":
			r.mu.Lock()
			m.consumed = true
			r.mu.Unlock()
			r.stats.dropped++
		case "u":
			r.stats.dups++
			r.deliver(m, true)
		default:
			r.stats.delivered++
			r.deliver(m, false)
		}
	case "t", "f":
		n := node(1, true)
		if n == nil {
			r.diverged(line)
			return
		}
		r.mu.Lock()
		clock, tt := n.clock, n.deadline.Type
		r.mu.Unlock()
		if f[0] == "f" {
			tt = TimeoutFastRecovery
			r.stats.fasts++
		} else {
			r.stats.timeouts++
		}
		if !clock.fire(tt) {
			r.note("TIMER-NOT-PENDING node=%d type=%v", n.id, tt)
		}
	case "part":
		if len(f) < 2 || len(f[1]) != r.cfg.n {
			r.diverged(line)
			return
		}
		r.part = ndMask(f[1], r.cfg.n)
		r.stats.parts++
	case "heal":
		r.part = nil
	case "crash":
		n := node(1, true)
		if n == nil {
			r.diverged(line)
			return
		}
		r.restart(n)
	case "crashmid":
		n := node(1, true)
		if n == nil || len(f) < 3 {
			r.diverged(line)
			return
		}
		if m := r.lookup(f[2]); m != nil && m.dst == n.id {
			r.deliver(m, false)
		}
		r.restart(n)
	case "hold":
		n := node(1, true)
		if n == nil {
			r.diverged(line)
			return
		}
		r.qmu.Lock()
		if !n.hold {
			n.hold, n.gate = true, make(chan struct{})
		}
		r.qmu.Unlock()
		r.stats.holds++
	case "unhold":
		n := node(1, true)
		if n == nil {
			r.diverged(line)
			return
		}
		r.qmu.Lock()
		if n.hold {
			close(n.gate)
			n.hold, n.gate = false, nil
		}
		r.qmu.Unlock()
	case "cu":
		n := node(1, true)
		if n == nil {
			r.diverged(line)
			return
		}
		r.catchup(n)
	case "bv", "bb":
		b := node(1, false)
		if b == nil || len(f) < 7 {
			r.diverged(line)
			return
		}
		r.byzVote(line, b, basics.Round(num(2)), period(num(3)), step(num(4)), f[5], ndMask(f[6], r.cfg.n), f[0] == "bb")
	case "bp":
		b := node(1, false)
		if b == nil || len(f) < 6 {
			r.diverged(line)
			return
		}
		r.byzProposal(line, b, basics.Round(num(2)), period(num(3)), num(4), ndMask(f[5], r.cfg.n))
	case "bpv", "bpl":
		b := node(1, false)
		if b == nil || len(f) < 6 {
			r.diverged(line)
			return
		}
		r.byzRelayProposal(line, b, basics.Round(num(2)), period(num(3)), f[4], ndMask(f[5], r.cfg.n), f[0] == "bpl")
	default:
		r.diverged(line)
	}
}

func (r *ndRun) restart(n *ndNode) {
	r.stats.crashes++
	r.stopNode(n)
	r.mu.Lock()
	r.logLocked("CRASH node=%d gen=%d round=%d period=%d step=%d", n.id, n.gen, n.round, n.period, n.step)
	r.mu.Unlock()
	if err := r.startNode(n); err != nil {
		r.fatal = err.Error()
		panic(err)
	}
}

func (r *ndRun) catchup(n *ndNode) {
	want := n.ledger.NextRound()
	for _, d := range r.nodes {
		if !d.honest || d == n {
			continue
		}
		if b, c, ok := d.ledger.have(want); ok {
			r.mu.Lock()
			cnt := n.riCount
			r.logLocked("CATCHUP node=%d round=%d from=%d", n.id, want, d.id)
			r.mu.Unlock()
			mon := n.curMonitor()
			mon.inc(networkCoserviceType)
			n.ledger.inner.EnsureBlock(b, c)
			for i := 0; i < 2000; i++ {
				r.mu.Lock()
				done := n.riCount > cnt || n.round > want
				r.mu.Unlock()
				if done {
					break
				}
				time.Sleep(time.Millisecond)
			}
			mon.dec(networkCoserviceType)
			r.stats.catchups++
			return
		}
	}
}

// refLedger: the honest ledger that is furthest ahead (membership lookups need the seed of round r-2).
func (r *ndRun) refLedger() *ndLedger {
	var best *ndLedger
	for _, n := range r.nodes {
		if n.honest && (best == nil || n.ledger.NextRound() > best.NextRound()) {
			best = n.ledger
		}
	}
	return best
}

func (r *ndRun) inject(src int, tag protocol.Tag, data []byte, mask []bool) {
	r.onWire(src, tag, data, mask)
}

// ---------------------------------------------------------------------------------------------- late-payload family

// ndLatePay: per round a set S of honest nodes (one node … a next-quorum) does not get proposal PAYLOADS while votes flow
// (the proposer's stand-alone step-0 vote still arrives unless noProp is drawn, so S soft-votes the leading value and
// sees its soft threshold without being able to cert-vote); the ordinary generator lets their deadlines expire (they
// next-vote); after `extra` further timeouts (and optionally a fast-recovery vote) the payloads are released to S before
// any other clock of S advances; then, for a while, cert votes reach one favoured node only.  Variants drawn per round:
// payload also late for the soft-vote decision (noProp), the soft quorum reaches S as a bundle built by a Byzantine node
// instead of as votes (asBundle), payload released during the later next steps or after a fast-recovery vote.
type ndLatePay struct {
	round    basics.Round
	S        []bool
	phase    int // 0 withhold, 1 release, 2 cert votes to one node, 3 off
	noProp   bool
	asBundle bool
	bundled  bool
	extra    int
	fast     bool
	favoured int
	until    int // step count at which phase 2 ends
}

func (r *ndRun) lpInS(id int) bool { return r.lp != nil && r.lp.S[id] }

// lpWithheldLocked: is this pending message currently held back by the late-payload adversary?
func (r *ndRun) lpWithheldLocked(m *ndMsg) bool {
	if sw := r.sw; sw != nil && sw.phase < 2 && m.dst == sw.victim && r.cfg.honest[m.src] {
		if in := r.info(m); in.round == sw.round && in.period == 0 && (in.kind == 'P' || (in.kind == 'V' && in.step == propose)) {
			return true // the victim learns the leading value only through the re-proposal vote and the bare payload
		}
	}
	lp := r.lp
	if lp == nil || lp.phase >= 3 {
		return false
	}
	in := r.info(m)
	if in.round != lp.round {
		return false
	}
	switch lp.phase {
	case 0:
		if !lp.S[m.dst] {
			return false
		}
		if in.kind == 'P' {
			return true
		}
		if in.kind == 'V' && in.step == propose && lp.noProp {
			return true
		}
		if in.kind == 'V' && in.step == soft && lp.asBundle {
			return true
		}
	case 2:
		if in.kind == 'V' && in.step == cert && in.period == 0 && m.dst != lp.favoured {
			return true
		}
	}
	return false
}

// ndPropSwap ("trim drops the staged payload" family, needs two Byzantine senders): a victim gets no period-0 proposal
// of the round from honest nodes; Byzantine Z1 sends it a period-1 re-proposal vote for the leading value v and v's
// payload without prior vote, both Byzantine nodes soft-vote v; once the victim has cert-voted v, Z2 (better period-1
// credential than Z1) sends its own period-1 proposal, which replaces Z1's re-proposal in the victim's proposal tracker.
type ndPropSwap struct {
	round  basics.Round
	victim int
	z1, z2 int
	val    string
	phase  int // 0 wait for v's payload on the wire, 1 wait for the victim's cert vote, 2 done
}

func (r *ndRun) swStep(minRound basics.Round) string {
	byz := r.byzIDs()
	if len(byz) < 2 {
		return ""
	}
	sw := r.sw
	if sw == nil || sw.round < minRound {
		hon := r.honestIDs()
		sw = &ndPropSwap{round: minRound, victim: hon[r.rng.Intn(len(hon))], z1: byz[0], z2: byz[1]}
		if r.rng.Intn(2) == 0 {
			sw.phase = 2 // not in this round
		}
		// Z2 must beat Z1 in period 1
		scratch, ref := ndGetWorld(), r.refLedger()
		var c [2]vote
		for i, z := range []int{sw.z1, sw.z2} {
			pv := proposalValue{OriginalPeriod: 1, OriginalProposer: scratch.parts[z].Parent}
			pv.BlockDigest[0] = 1
			if uv, err := ndSignWith(scratch, z, minRound, 1, propose, pv, ref); err == nil {
				c[i], _ = uv.verify(ref)
			}
		}
		if c[0].Cred.Less(c[1].Cred) {
			sw.z1, sw.z2 = sw.z2, sw.z1
		}
		r.sw = sw
		if sw.phase == 0 {
			r.logLocked("PROPSWAP round=%d victim=%d z1=%d z2=%d", sw.round, sw.victim, sw.z1, sw.z2)
		}
	}
	mask := make([]byte, r.cfg.n)
	all := make([]byte, r.cfg.n)
	for i := range mask {
		mask[i], all[i] = '0', '0'
		if r.cfg.honest[i] {
			all[i] = '1'
		}
	}
	mask[sw.victim] = '1'
	switch sw.phase {
	case 0:
		// the leading honest period-0 value whose payload has been seen: take the one most soft votes are for, else any
		key := fmt.Sprintf("%d/%d/%d", sw.round, 0, soft)
		best, bestN := "", 0
		cnt := map[string]int{}
		for _, vs := range r.wireVotes[key] {
			for _, uv := range vs {
				cnt[ndTok(uv.R.Proposal)]++
			}
		}
		for tok, k := range cnt {
			if _, have := r.payloads[tok]; have && (k > bestN || (k == bestN && tok < best)) {
				best, bestN = tok, k
			}
		}
		if best == "" {
			return ""
		}
		sw.val, sw.phase = best, 1
		r.genQueue = append(r.genQueue,
			fmt.Sprintf("bpl %d %d 0 %s %s", sw.z1, sw.round, best, string(mask)),
			fmt.Sprintf("bv %d %d 0 %d %s %s", sw.z1, sw.round, soft, best, string(all)),
			fmt.Sprintf("bv %d %d 0 %d %s %s", sw.z2, sw.round, soft, best, string(all)))
		return fmt.Sprintf("bpv %d %d 1 %s %s", sw.z1, sw.round, best, string(mask))
	case 1:
		for _, ev := range r.trace {
			if ev.kind == 'v' && ev.node == sw.victim && ev.round == sw.round && ev.p == 0 && ev.step == cert && !ev.dropped {
				sw.phase = 2
				return fmt.Sprintf("bp %d %d 1 %d %s", sw.z2, sw.round, 1+r.rng.Intn(3), string(mask))
			}
		}
		if n := r.nodes[sw.victim]; n.round != sw.round || n.period != 0 || n.step > cert {
			sw.phase = 2
		}
	}
	return ""
}

// lpStep drives the phases; "" = let the ordinary generator decide.
func (r *ndRun) lpStep() string {
	hon := r.honestIDs()
	r.mu.Lock()
	var minRound basics.Round
	for i, id := range hon {
		if n := r.nodes[id]; i == 0 || n.round < minRound {
			minRound = n.round
		}
	}
	if l := r.swStep(minRound); l != "" {
		r.mu.Unlock()
		return l
	}
	lp := r.lp
	if lp == nil || (lp.round < minRound && lp.phase > 0) || lp.round+1 < minRound {
		// a new round for the adversary: draw S and the variant
		k := 1 + r.rng.Intn(len(hon)-1)
		if r.rng.Intn(2) == 0 {
			k = len(hon) - 1 // a next-quorum worth of nodes without the payload
		}
		lp = &ndLatePay{round: minRound, S: make([]bool, r.cfg.n), noProp: r.rng.Intn(4) == 0, extra: r.rng.Intn(3) % 2 * (1 + r.rng.Intn(2)),
			fast: r.rng.Intn(5) == 0, asBundle: len(r.byzIDs()) > 0 && r.rng.Intn(2) == 0}
		perm := append([]int{}, hon...)
		for i := len(perm) - 1; i > 0; i-- {
			j := r.rng.Intn(i + 1)
			perm[i], perm[j] = perm[j], perm[i]
		}
		for _, id := range perm[:k] {
			lp.S[id] = true
		}
		lp.favoured = perm[r.rng.Intn(len(perm))]
		r.lp = lp
		r.logLocked("LATEPAY round=%d S=%v noprop=%v bundle=%v extra=%d fast=%v favoured=%d", lp.round, lp.S, lp.noProp, lp.asBundle, lp.extra, lp.fast, lp.favoured)
	}
	defer r.mu.Unlock()
	switch lp.phase {
	case 0:
		// variant: the soft quorum reaches S as a bundle made by a Byzantine node
		if lp.asBundle && !lp.bundled {
			key := fmt.Sprintf("%d/%d/%d", lp.round, 0, soft)
			cnt := map[string]uint64{}
			for snd, vs := range r.wireVotes[key] {
				for _, uv := range vs {
					cnt[ndTok(uv.R.Proposal)] += r.cfg.w[snd]
				}
			}
			for tok, w := range cnt {
				if w+1 >= r.cfg.T && tok != "bot" { // the Byzantine node's own vote may complete it
					lp.bundled = true
					mask := make([]byte, r.cfg.n)
					for i := range mask {
						mask[i] = '0'
						if lp.S[i] {
							mask[i] = '1'
						}
					}
					return fmt.Sprintf("bb %d %d 0 %d %s %s", r.byzIDs()[0], lp.round, soft, tok, string(mask))
				}
			}
		}
		// phase 0 ends when every node of S has left the soft and cert steps of period 0 (or the period / round)
		want := next + step(lp.extra)
		done := true
		for id, in := range lp.S {
			if !in {
				continue
			}
			n := r.nodes[id]
			if n.round == lp.round && n.period == 0 && n.step < want {
				done = false
			}
		}
		if !done {
			return ""
		}
		lp.phase = 1
		if lp.fast {
			for id, in := range lp.S {
				if in && r.nodes[id].round == lp.round {
					r.genQueue = append(r.genQueue, fmt.Sprintf("f %d", id), fmt.Sprintf("f %d", id))
				}
			}
			if len(r.genQueue) > 0 {
				l := r.genQueue[0]
				r.genQueue = r.genQueue[1:]
				return l
			}
		}
		fallthrough
	case 1:
		// release what was withheld to S, before any clock of S advances
		for _, m := range r.pending {
			if m.consumed || !lp.S[m.dst] || r.delivered[m.dst][m.hash] || !r.sameSide(m.src, m.dst) {
				continue
			}
			in := r.info(m)
			if in.round == lp.round && (in.kind == 'P' || (in.kind == 'V' && in.step == propose)) {
				return "d " + m.key
			}
		}
		lp.phase = 2
		lp.until = r.stats.steps + 60 + r.rng.Intn(240)
		return ""
	case 2:
		if r.stats.steps >= lp.until {
			lp.phase = 3
		}
	}
	return ""
}
