//go:build verif

package agreement

// C06 correspondence harness: real voteAcceptedEvents are dispatched to a real voteTracker, either through a real
// stepRouter (checkedListener + voteTrackerContract, mode "r") or by calling voteTracker.handle directly (mode "d"),
// and after every vote the returned thresholdEvent (type, value, bundle) and the four tallies are printed canonically.
//
// Op grammar (space separated, decimal):
//   reset <mode r|d> <step> <T> <proto> <round> <period>   new tracker; T = step.threshold(config.Consensus[proto]) (informative for Go)
//   vote <sender> <weight> <value>                         one voteAcceptedEvent
//   rq <step> <T> <proto> <weight>                         step.reachesQuorum(proto, weight)
// sender id n  ↦ address with big-endian n in bytes 0..7 (bytes.Compare order = numeric order)
// value id k   ↦ proposalValue{BlockDigest: BE(k/2), EncodingDigest: BE(k%2)}  (0 = bottom; 2j and 2j+1 share the BlockDigest)
// the signature of a vote encodes (sender, value); the VRF proof of its credential encodes (sender, weight).

import (
	"encoding/binary"
	"fmt"
	"sort"
	"strconv"
	"strings"
	"testing"

	"github.com/algorand/go-algorand/config"
	"github.com/algorand/go-algorand/data/basics"
	"github.com/algorand/go-algorand/data/committee"
	"github.com/algorand/go-algorand/logging"
	"github.com/algorand/go-algorand/protocol"
	"github.com/algorand/go-algorand/zz_verif_tools/vh"
)

func verifC06Addr(id uint64) (a basics.Address) {
	binary.BigEndian.PutUint64(a[0:8], id)
	return
}

func verifC06AddrID(a basics.Address) string {
	id := binary.BigEndian.Uint64(a[0:8])
	if verifC06Addr(id) != a {
		return "BADADDR"
	}
	return strconv.FormatUint(id, 10)
}

func verifC06Value(k uint64) (v proposalValue) {
	binary.BigEndian.PutUint64(v.BlockDigest[24:32], k/2)
	binary.BigEndian.PutUint64(v.EncodingDigest[24:32], k%2)
	return
}

func verifC06ValueID(v proposalValue) string {
	k := 2*binary.BigEndian.Uint64(v.BlockDigest[24:32]) + binary.BigEndian.Uint64(v.EncodingDigest[24:32])
	if verifC06Value(k) != v {
		return "BADVAL"
	}
	return strconv.FormatUint(k, 10)
}

func verifC06Vote(sender, weight, value uint64, r round, p period, s step) vote {
	var v vote
	v.R = rawVote{Sender: verifC06Addr(sender), Round: r, Period: p, Step: s, Proposal: verifC06Value(value)}
	v.Cred = committee.Credential{Weight: weight}
	binary.BigEndian.PutUint64(v.Cred.UnauthenticatedCredential.Proof[0:8], sender)
	binary.BigEndian.PutUint64(v.Cred.UnauthenticatedCredential.Proof[8:16], weight)
	v.Cred.UnauthenticatedCredential.Proof[16] = 0xC6
	binary.BigEndian.PutUint64(v.Sig.Sig[0:8], sender)
	binary.BigEndian.PutUint64(v.Sig.Sig[8:16], value)
	v.Sig.Sig[16] = 0xA5
	return v
}

// weight as the verifier would recompute it from the (unauthenticated) credential
func verifC06CredWeight(sender basics.Address, c committee.UnauthenticatedCredential) string {
	if c.Proof[16] != 0xC6 || verifC06Addr(binary.BigEndian.Uint64(c.Proof[0:8])) != sender {
		return "BADCRED"
	}
	return strconv.FormatUint(binary.BigEndian.Uint64(c.Proof[8:16]), 10)
}

func verifC06SigValue(sender basics.Address, sig [64]byte) string {
	if sig[16] != 0xA5 || verifC06Addr(binary.BigEndian.Uint64(sig[0:8])) != sender {
		return "BADSIG"
	}
	return strconv.FormatUint(binary.BigEndian.Uint64(sig[8:16]), 10)
}

func verifC06Proto(name string) protocol.ConsensusVersion {
	if name == "cur" {
		return protocol.ConsensusCurrentVersion
	}
	if strings.HasPrefix(name, "small") {
		k := vh.U(name[5:])
		cv := protocol.ConsensusVersion("verif-c06-" + name)
		if _, ok := config.Consensus[cv]; !ok {
			p := config.Consensus[protocol.ConsensusCurrentVersion]
			p.SoftCommitteeThreshold = k
			p.CertCommitteeThreshold = k + 1
			p.NextCommitteeThreshold = k + 2
			p.LateCommitteeThreshold = k + 3
			p.RedoCommitteeThreshold = k + 4
			p.DownCommitteeThreshold = k + 5
			config.Consensus[cv] = p
		}
		return cv
	}
	panic("bad proto " + name)
}

type verifC06Exec struct {
	mode   string
	step   step
	proto  protocol.ConsensusVersion
	round  round
	period period
	sr     *stepRouter
	vt     *voteTracker
	tr     *tracer
	dead   bool
}

func verifC06Panic(r interface{}) string {
	msg := fmt.Sprint(r)
	if e, ok := r.(interface{ String() (string, error) }); ok { // *logrus.Entry
		if s, err := e.String(); err == nil {
			msg = s
		}
	}
	switch {
	case strings.Contains(msg, "precondition violated"):
		return "PANIC contract-pre"
	case strings.Contains(msg, "postcondition violated"):
		return "PANIC contract-post"
	case strings.Contains(msg, "too many equivocators"):
		return "PANIC eqquorum"
	case strings.Contains(msg, "more than value reached"):
		return "PANIC twoover"
	case strings.Contains(msg, "index out of range"):
		return "PANIC index"
	case strings.Contains(msg, "no votes present"):
		return "PANIC novotes"
	case strings.Contains(msg, "invalid vote passed"):
		return "PANIC wrongvalue"
	case strings.Contains(msg, "not enough votes"):
		return "PANIC notenough"
	}
	if len(msg) > 120 {
		msg = msg[:120]
	}
	return "PANIC other " + strings.ReplaceAll(msg, "\n", " ")
}

func (x *verifC06Exec) dumpBundle(b unauthenticatedBundle) string {
	var vs, es []string
	for _, a := range b.Votes {
		vs = append(vs, fmt.Sprintf("%s:%s:%s", verifC06AddrID(a.Sender), verifC06CredWeight(a.Sender, a.Cred), verifC06SigValue(a.Sender, a.Sig.Sig)))
	}
	for _, a := range b.EquivocationVotes {
		es = append(es, fmt.Sprintf("%s:%s:%s:%s:%s:%s", verifC06AddrID(a.Sender), verifC06CredWeight(a.Sender, a.Cred),
			verifC06ValueID(a.Proposals[0]), verifC06ValueID(a.Proposals[1]), verifC06SigValue(a.Sender, a.Sigs[0].Sig), verifC06SigValue(a.Sender, a.Sigs[1].Sig)))
	}
	return fmt.Sprintf("B r=%d p=%d s=%d prop=%s votes=[%s] eq=[%s]", b.Round, b.Period, b.Step, verifC06ValueID(b.Proposal), strings.Join(vs, ","), strings.Join(es, ","))
}

func (x *verifC06Exec) dumpEvent(e thresholdEvent) string {
	if e.T == none {
		s := "none"
		if len(e.Bundle.Votes) != 0 || len(e.Bundle.EquivocationVotes) != 0 || e.Proposal != bottom {
			s += " NONEMPTY"
		}
		return s
	}
	k := "?" + strconv.Itoa(int(e.T))
	switch e.T {
	case softThreshold:
		k = "1"
	case certThreshold:
		k = "2"
	case nextThreshold:
		k = "3"
	}
	s := fmt.Sprintf("thr k=%s r=%d p=%d s=%d prop=%s %s", k, e.Round, e.Period, e.Step, verifC06ValueID(e.Proposal), x.dumpBundle(e.Bundle))
	if e.Proto != x.proto {
		s += " BADPROTO"
	}
	return s
}

func verifC06VoteStr(key basics.Address, v vote) string {
	s := fmt.Sprintf("%s:%d:%s", verifC06AddrID(v.R.Sender), v.Cred.Weight, verifC06ValueID(v.R.Proposal))
	if key != v.R.Sender {
		s += "!KEY"
	}
	if verifC06SigValue(v.R.Sender, v.Sig.Sig) != verifC06ValueID(v.R.Proposal) {
		s += "!SIG"
	}
	return s
}

func verifC06SortedAddrs[V any](m map[basics.Address]V) []basics.Address {
	ks := make([]basics.Address, 0, len(m))
	for k := range m {
		ks = append(ks, k)
	}
	sort.Slice(ks, func(i, j int) bool { return binary.BigEndian.Uint64(ks[i][0:8]) < binary.BigEndian.Uint64(ks[j][0:8]) })
	return ks
}

func (x *verifC06Exec) dumpState() string {
	t := x.vt
	var vs, cs, es []string
	for _, k := range verifC06SortedAddrs(t.Voters) {
		vs = append(vs, verifC06VoteStr(k, t.Voters[k]))
	}
	type kv struct {
		id uint64
		v  proposalValue
	}
	var keys []kv
	for v := range t.Counts {
		id, err := strconv.ParseUint(verifC06ValueID(v), 10, 64)
		if err != nil {
			id = ^uint64(0)
		}
		keys = append(keys, kv{id, v})
	}
	sort.Slice(keys, func(i, j int) bool { return keys[i].id < keys[j].id })
	for _, k := range keys {
		c := t.Counts[k.v]
		var inner []string
		for _, a := range verifC06SortedAddrs(c.Votes) {
			inner = append(inner, verifC06VoteStr(a, c.Votes[a]))
		}
		cs = append(cs, fmt.Sprintf("%s:%d:(%s)", verifC06ValueID(k.v), c.Count, strings.Join(inner, ",")))
	}
	for _, k := range verifC06SortedAddrs(t.Equivocators) {
		e := t.Equivocators[k]
		s := fmt.Sprintf("%s:%d:%s:%s", verifC06AddrID(e.Sender), e.Cred.Weight, verifC06ValueID(e.Proposals[0]), verifC06ValueID(e.Proposals[1]))
		if k != e.Sender {
			s += "!KEY"
		}
		if verifC06SigValue(e.Sender, e.Sigs[0].Sig) != verifC06ValueID(e.Proposals[0]) || verifC06SigValue(e.Sender, e.Sigs[1].Sig) != verifC06ValueID(e.Proposals[1]) {
			s += "!SIG"
		}
		if e.Round != x.round || e.Period != x.period || e.Step != x.step {
			s += "!RPS"
		}
		es = append(es, s)
	}
	return fmt.Sprintf("V=[%s] C=[%s] E=[%s] EC=%d", strings.Join(vs, ","), strings.Join(cs, ","), strings.Join(es, ","), t.EquivocatorsCount)
}

func (x *verifC06Exec) exec(op string) (res string) {
	f := strings.Fields(op)
	defer func() {
		if r := recover(); r != nil {
			res = verifC06Panic(r)
			if len(f) > 0 && f[0] == "vote" {
				x.dead = true
			}
		}
	}()
	switch f[0] {
	case "reset":
		x.mode = f[1]
		x.step = step(vh.U(f[2]))
		x.proto = verifC06Proto(f[4])
		x.round = round(vh.U(f[5]))
		x.period = period(vh.U(f[6]))
		x.sr = new(stepRouter)
		x.vt = &x.sr.VoteTracker
		x.dead = false
		return "ok"
	case "rq":
		s := step(vh.U(f[1]))
		return vh.B(s.reachesQuorum(config.Consensus[verifC06Proto(f[3])], vh.U(f[4])))
	case "vote":
		if x.dead {
			return "DEAD"
		}
		ev := voteAcceptedEvent{Vote: verifC06Vote(vh.U(f[1]), vh.U(f[2]), vh.U(f[3]), x.round, x.period, x.step), Proto: x.proto}
		var out event
		if x.mode == "r" {
			out = x.sr.dispatch(x.tr, player{}, ev, voteMachinePeriod, voteMachineStep, x.round, x.period, x.step)
		} else {
			out = x.vt.handle(routerHandle{t: x.tr, r: x.sr, src: voteMachineStep}, player{}, ev)
		}
		te, ok := out.(thresholdEvent)
		if !ok {
			return "BADEVENT " + out.t().String()
		}
		return x.dumpEvent(te) + " | " + x.dumpState()
	}
	return "bad-op"
}

// ---------------------------------------------------------------------------------------------- generator

type verifC06Gen struct {
	rng *vh.Rng
	ops []string
	n   int // votes emitted
}

func (g *verifC06Gen) threshold(protoName string, s uint64) uint64 {
	return step(s).threshold(config.Consensus[verifC06Proto(protoName)])
}

func (g *verifC06Gen) reset(mode string, s uint64, protoName string) uint64 {
	T := g.threshold(protoName, s)
	g.ops = append(g.ops, fmt.Sprintf("reset %s %d %d %s %d %d", mode, s, T, protoName, 1+g.rng.Intn(1000), g.rng.Intn(12)))
	return T
}

func (g *verifC06Gen) vote(sender, weight, value uint64) {
	g.ops = append(g.ops, fmt.Sprintf("vote %d %d %d", sender, weight, value))
	g.n++
}

var verifC06Steps = []uint64{1, 1, 1, 2, 2, 2, 3, 3, 4, 5, 17, 252, 253, 254, 255}

func (g *verifC06Gen) pickStepMode() (string, uint64) {
	r := g.rng
	if r.Chance(4) {
		return "d", 0 // propose: only reachable without the contract
	}
	s := verifC06Steps[r.Intn(len(verifC06Steps))]
	if r.Chance(15) {
		return "d", s
	}
	return "r", s
}

func (g *verifC06Gen) senderIDs(n int) []uint64 {
	r := g.rng
	seen := map[uint64]bool{}
	var ids []uint64
	kind := r.Intn(4)
	for len(ids) < n {
		var id uint64
		switch kind {
		case 0:
			id = uint64(r.Intn(8))
		case 1:
			id = uint64(r.Intn(70000))
		case 2:
			id = (uint64(1) << 63) - 4 + uint64(r.Intn(8))
		default:
			id = 250 + uint64(r.Intn(12)) // straddles the 1-byte/2-byte boundary 255/256
		}
		if !seen[id] {
			seen[id] = true
			ids = append(ids, id)
		}
	}
	return ids
}

// one random case: ≤ 8 senders, weights around the threshold, duplicates and equivocations
func (g *verifC06Gen) randomCase() {
	r := g.rng
	mode, s := g.pickStepMode()
	n := 1 + r.Intn(8)
	protoName := "cur"
	profile := r.Intn(6)
	if profile >= 3 {
		protoName = "small" + strconv.Itoa(r.Intn(11))
		if r.Chance(3) {
			protoName = "small0"
		}
	}
	T := g.reset(mode, s, protoName)
	ids := g.senderIDs(n)
	w := make([]uint64, n)
	k := uint64(2 + r.Intn(4))
	eqw := (T + k - 1) / k
	for i := range w {
		switch profile {
		case 0, 3: // ≈ T/k ± 1
			w[i] = T/k + uint64(r.Intn(3))
			if w[i] > 0 && r.Bool() {
				w[i]--
			}
		case 1, 4: // all equal ⌈T/k⌉ (ties in the bundle sort are broken by the address)
			w[i] = eqw
		case 2: // anything up to T
			w[i] = 1 + uint64(r.Intn(int(T%1000000+1)))
			if r.Chance(30) {
				w[i] = T - uint64(r.Intn(3))%(T+1)
			}
		default: // small weights
			w[i] = 1 + uint64(r.Intn(4))
		}
		if w[i] == 0 && !r.Chance(5) {
			w[i] = 1
		}
	}
	inconsistent := r.Chance(3)
	vals := []uint64{1 + uint64(r.Intn(6))}
	for len(vals) < 1+r.Intn(3) {
		v := uint64(r.Intn(8))
		if v == 0 && s < 3 && mode == "r" {
			continue // vote.verify rejects bottom in soft/cert (the contract relies on it)
		}
		vals = append(vals, v)
	}
	last := map[int]uint64{}
	L := 1 + r.Intn(3*n+1)
	for j := 0; j < L; j++ {
		i := r.Intn(n)
		var v uint64
		if old, ok := last[i]; ok {
			switch c := r.Intn(10); {
			case c < 4:
				v = old
			case c < 8:
				v = vals[r.Intn(len(vals))]
				if v == old {
					v = vals[(r.Intn(len(vals))+1)%len(vals)]
				}
			default:
				v = vals[r.Intn(len(vals))]
			}
		} else if r.Chance(60) {
			v = vals[0]
		} else {
			v = vals[r.Intn(len(vals))]
		}
		if _, ok := last[i]; !ok {
			last[i] = v
		}
		wt := w[i]
		if inconsistent && r.Chance(30) {
			wt = 1 + uint64(r.Intn(int(T%1000000+2)))
		}
		g.vote(ids[i], wt, v)
	}
}

// directed scenarios named in the design
func (g *verifC06Gen) directed() {
	r := g.rng
	for _, s := range []uint64{1, 2, 3, 7, 253, 254, 255} {
		for _, protoName := range []string{"cur", "small6", "small1"} {
			T := g.threshold(protoName, s)
			a, b, c, d := uint64(10+r.Intn(5)), uint64(20+r.Intn(5)), uint64(30+r.Intn(5)), uint64(40+r.Intn(5))
			h := (T + 1) / 2
			// sole voter equivocates (entry deleted), then regular votes cross using the wildcard weight
			g.reset("r", s, protoName)
			g.vote(a, h, 1)
			g.vote(a, h, 2)
			g.vote(a, h, 1)
			g.vote(b, h, 2)
			g.vote(c, h, 3)
			// equivocation before crossing, entry kept
			g.reset("r", s, protoName)
			g.vote(a, 1, 1)
			g.vote(b, h, 1)
			g.vote(a, 1, 2)
			g.vote(c, h, 1)
			g.vote(c, h, 1)
			// equivocation after crossing by a voter of the winning value; no second signal
			g.reset("r", s, protoName)
			g.vote(a, h, 1)
			g.vote(b, h, 1)
			g.vote(a, h, 2)
			g.vote(c, 1, 2)
			g.vote(d, h, 2)
			// exactly T−1 then +1
			if T >= 2 {
				g.reset("r", s, protoName)
				g.vote(a, T-1, 1)
				g.vote(a, T-1, 1)
				g.vote(b, 1, 1)
				g.vote(c, 1, 1)
			}
			// too many equivocators
			g.reset("r", s, protoName)
			g.vote(a, h, 1)
			g.vote(b, h, 1)
			g.vote(b, h, 2)
			g.vote(a, h, 2)
			g.vote(c, 1, 1)
			// two values over the threshold at once (wildcard weight pushes both)
			if T >= 3 {
				e := T / 3
				g.reset("r", s, protoName)
				g.vote(a, T-e, 1)
				g.vote(b, T-e, 2)
				g.vote(c, e, 3)
				g.vote(c, e, 4)
				g.vote(d, 1, 1)
			}
			// equal weights: bundle order decided by the address, cut at quorum
			if T >= 4 {
				q := (T + 3) / 4
				g.reset("r", s, protoName)
				for _, id := range []uint64{c, a, d, b, 255, 256, 65536} {
					g.vote(id, q, 1)
				}
			}
		}
	}
	// propose step never reaches a quorum (direct mode; the contract forbids it)
	g.reset("d", 0, "cur")
	for i := uint64(0); i < 6; i++ {
		g.vote(i, 1000, 1)
	}
	// reachesQuorum against threshold for every step kind
	for _, protoName := range []string{"cur", "small0", "small5"} {
		for _, s := range []uint64{0, 1, 2, 3, 4, 100, 252, 253, 254, 255, 256} {
			T := g.threshold(protoName, s)
			for _, wt := range []uint64{0, 1, T - 1, T, T + 1, ^uint64(0)} {
				g.ops = append(g.ops, fmt.Sprintf("rq %d %d %s %d", s, T, protoName, wt))
			}
		}
	}
}

// all sequences of length L over 3 senders × 3 values
func (g *verifC06Gen) exhaustive(L int, T uint64, w [3]uint64, s uint64, vals [3]uint64) {
	protoName := "small" + strconv.FormatUint(T-(map[uint64]uint64{1: 0, 2: 1, 3: 2}[s]), 10)
	total := 1
	for i := 0; i < L; i++ {
		total *= 9
	}
	ids := [3]uint64{7, 300, 5}
	for x := 0; x < total; x++ {
		g.reset("r", s, protoName)
		y := x
		for j := 0; j < L; j++ {
			d := y % 9
			y /= 9
			g.vote(ids[d/3], w[d/3], vals[d%3])
		}
	}
}

func verifC06Generate() []string {
	g := &verifC06Gen{rng: vh.NewRng(vh.Seed())}
	g.directed()
	type cfg struct {
		T uint64
		w [3]uint64
		s uint64
	}
	cfgs := []cfg{{2, [3]uint64{1, 1, 1}, 1}, {3, [3]uint64{1, 2, 2}, 2}, {4, [3]uint64{2, 2, 3}, 3}, {5, [3]uint64{2, 3, 4}, 1}, {3, [3]uint64{1, 1, 1}, 3}, {6, [3]uint64{2, 2, 2}, 2}}
	if vh.Thorough() {
		for _, c := range cfgs[:4] {
			g.exhaustive(5, c.T, c.w, c.s, [3]uint64{1, 2, 3})
		}
		g.exhaustive(5, 3, [3]uint64{1, 2, 2}, 3, [3]uint64{0, 2, 3})
	} else {
		c := cfgs[int(vh.Seed()%uint64(len(cfgs)))]
		g.exhaustive(4, c.T, c.w, c.s, [3]uint64{1, 2, 3})
	}
	budget := g.n + vh.Budget(25000, 600000)
	for g.n < budget {
		g.randomCase()
	}
	return g.ops
}

func TestVerifC06(t *testing.T) {
	logging.Base().SetOutput(nullWriter{})
	logging.Base().SetLevel(logging.Warn)
	ops, replay := vh.ReplayOps()
	if !replay {
		ops = verifC06Generate()
	}
	out := vh.Open("c06")
	defer out.Close()
	x := &verifC06Exec{tr: &tracer{log: serviceLogger{logging.Base()}}, dead: true}
	for _, op := range ops {
		out.Emit(op, x.exec(op))
	}
	for cv := range config.Consensus {
		if strings.HasPrefix(string(cv), "verif-c06-") {
			delete(config.Consensus, cv)
		}
	}
}
