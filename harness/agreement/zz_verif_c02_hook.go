//go:build verif

package agreement

// C02 hooks (attest → persist → checkpoint → release).  /verif/checks/c02hooks.py generates, on every run, overlay copies of
// the CURRENT agreement/actions.go, agreement/persistence.go and agreement/pseudonode.go in which the function variable
// below is called at these syntactic anchors (a missing anchor is reported as a broken tie, never skipped):
//
//	attest     pseudonodeAction.do, attest branch, before s.loopback.MakeVotes(…, persistStateDone)        who = *Service
//	enq        pseudonodeAction.do, attest branch, MakeVotes succeeded, before s.persistState(persistStateDone)  who = *Service
//	enqd       pseudonodeAction.do, attest branch, after s.persistState(persistStateDone) returned          who = *Service
//	pbegin     asyncPersistenceLoop.loop, before persist(…)                                                who = *asyncPersistenceLoop
//	persisted  asyncPersistenceLoop.loop, after persist(…) (err = its result, raw = the bytes written)     who = *asyncPersistenceLoop
//	ckpt       checkpointAction.do, first statement (err = c.Err)                                          who = *Service
//	waitbegin  pseudonodeVotesTask.execute, before the wait on t.persistStateDone                          who = *coserviceMonitor
//	waitend    pseudonodeVotesTask.execute, after the wait, before the votes are pushed                    who = *coserviceMonitor
//	out        pseudonodeVotesTask.execute, a vote was handed to t.out (val = the vote's proposal)         who = *coserviceMonitor
//
// `done` is the persistStateDone channel of the attest: its identity ties the nine points of one attest together.
// The variable is nil unless the C02 harness installs it; the unpatched files never refer to it.
var verifC02Hook func(point string, who interface{}, done chan error, r round, p period, s step, val proposalValue, err error, raw []byte)

func verifC02SerErr(e *serializableError) error {
	if e == nil {
		return nil
	}
	return *e
}
