//go:build verif

package agreement

// NetDrive, part 1: the environment of one schedule — real keys, consensus parameters with deterministic committee
// weights, the harness clock, the ledger wrapper, the quiescence monitor, node start / crash / restart.

import (
	"fmt"
	"io"
	"sync"
	"time"

	"github.com/algorand/go-algorand/config"
	"github.com/algorand/go-algorand/crypto"
	"github.com/algorand/go-algorand/data/account"
	"github.com/algorand/go-algorand/data/basics"
	"github.com/algorand/go-algorand/data/bookkeeping"
	"github.com/algorand/go-algorand/data/committee"
	"github.com/algorand/go-algorand/logging"
	"github.com/algorand/go-algorand/protocol"
	"github.com/algorand/go-algorand/util/db"
	"github.com/algorand/go-algorand/util/timers"
)

const ndMaxNodes = 7

// ---------------------------------------------------------------------------------------------- keys

type ndWorld struct {
	addrs  [ndMaxNodes]basics.Address
	parts  [ndMaxNodes]account.Participation
	byAddr map[basics.Address]int
}

// ndGetWorld: fresh key objects per schedule.  OneTimeSignatureSecrets.Sign draws a new sub-key from the secrets' own
// (seeded) generator on every call, so message bytes depend on how many signatures a key has made: a schedule must start
// from the same generator state to be replayable.
func ndGetWorld() *ndWorld {
	var ndTheWorld *ndWorld
	func() {
		w := &ndWorld{byAddr: map[basics.Address]int{}}
		for k := 0; k < ndMaxNodes; k++ {
			var seed crypto.Seed
			copy(seed[:], fmt.Sprintf("verif-netdrive-acct-%02d-sig-seed!!!", k))
			s := crypto.GenerateSignatureSecrets(seed)
			w.addrs[k] = basics.Address(s.SignatureVerifier)
			var vseed [32]byte
			copy(vseed[:], fmt.Sprintf("verif-netdrive-acct-%02d-vrf-seed!!!", k))
			v := new(crypto.VRFSecrets)
			v.PK, v.SK = crypto.VrfKeygenFromSeed(vseed)
			rng := crypto.MakePRNG([]byte(fmt.Sprintf("verif-netdrive-acct-%02d-ots", k)))
			ots := crypto.GenerateOneTimeSignatureSecretsRNG(0, 2, rng)
			w.parts[k] = account.Participation{Parent: w.addrs[k], VRF: v, Voting: ots, FirstValid: 0, LastValid: 1000}
			w.byAddr[w.addrs[k]] = k
		}
		ndTheWorld = w
	}()
	return ndTheWorld
}

// ---------------------------------------------------------------------------------------------- consensus parameters

var ndProtoMu sync.Mutex

// ndProto registers (once) a consensus version in which every committee has expected size W = the total online stake,
// so that sortition selects every account with weight = its stake (binomial with p = 1), and every threshold is T.
// This is the "fixed weights" idealisation of Spec.AgreementAbs made real: weights are what the real credential code
// computes, but they no longer depend on the VRF output.
func ndProto(W, T uint64) protocol.ConsensusVersion {
	name := protocol.ConsensusVersion(fmt.Sprintf("verif-netdrive-W%d-T%d", W, T))
	ndProtoMu.Lock()
	defer ndProtoMu.Unlock()
	if _, ok := config.Consensus[name]; ok {
		return name
	}
	p := config.Consensus[protocol.ConsensusCurrentVersion]
	p.NumProposers = W
	p.SoftCommitteeSize, p.SoftCommitteeThreshold = W, T
	p.CertCommitteeSize, p.CertCommitteeThreshold = W, T
	p.NextCommitteeSize, p.NextCommitteeThreshold = W, T
	p.LateCommitteeSize, p.LateCommitteeThreshold = W, T
	p.RedoCommitteeSize, p.RedoCommitteeThreshold = W, T
	p.DownCommitteeSize, p.DownCommitteeThreshold = W, T
	p.ApprovedUpgrades = map[protocol.ConsensusVersion]uint64{}
	config.Consensus[name] = p
	return name
}

// ---------------------------------------------------------------------------------------------- clock

type ndTimeout struct {
	delta time.Duration
	ch    chan time.Time
	fired bool
}

// ndClock is the package's testingClock with two differences: Decode returns a clock that is still wired to the node
// (the package's returns one without monitor), and fire refuses to close a channel twice.
type ndClock struct {
	mu   sync.Mutex
	node *ndNode
	TA   map[TimeoutType]*ndTimeout
}

func ndMakeClock(n *ndNode) *ndClock { return &ndClock{node: n, TA: map[TimeoutType]*ndTimeout{}} }

func (c *ndClock) Zero() timers.Clock[TimeoutType] {
	c.mu.Lock()
	c.TA = map[TimeoutType]*ndTimeout{}
	c.mu.Unlock()
	c.node.curMonitor().clearClock()
	return c
}
func (c *ndClock) Since() time.Duration { return 1 }
func (c *ndClock) TimeoutAt(d time.Duration, tt TimeoutType) <-chan time.Time {
	c.mu.Lock()
	defer c.mu.Unlock()
	ta, ok := c.TA[tt]
	if !ok || ta.delta != d {
		ta = &ndTimeout{delta: d, ch: make(chan time.Time)}
		c.TA[tt] = ta
	}
	return ta.ch
}
func (c *ndClock) Encode() []byte { return []byte{1} }
func (c *ndClock) Decode([]byte) (timers.Clock[TimeoutType], error) {
	return ndMakeClock(c.node), nil
}

// fire closes the pending channel of the given type; false if the Service never asked for it or it fired already.
func (c *ndClock) fire(tt TimeoutType) bool {
	c.mu.Lock()
	defer c.mu.Unlock()
	ta, ok := c.TA[tt]
	if !ok || ta.fired {
		return false
	}
	c.node.curMonitor().inc(clockCoserviceType)
	ta.fired = true
	close(ta.ch)
	return true
}

type ndRand struct{ s uint64 }

func (r *ndRand) Uint64() uint64 {
	r.s += 0x9E3779B97F4A7C15
	z := r.s
	z = (z ^ (z >> 30)) * 0xBF58476D1CE4E5B9
	z = (z ^ (z >> 27)) * 0x94D049BB133111EB
	return z ^ (z >> 31)
}

// ---------------------------------------------------------------------------------------------- ledger

// ndLedger wraps the package's testLedger: every write is logged (concrete log + abstract `commit`), a node that is
// asked to commit a second, different block for a round is recorded instead of panicking inside the Service, and
// Wait() on an already committed round can be gated (that is the call the persistence loop makes before it writes the
// crash state, so the gate stalls persistence: crash points between `attest` and `persist`).
type ndLedger struct {
	inner *testLedger
	run   *ndRun
	node  *ndNode
}

func (l *ndLedger) NextRound() basics.Round { return l.inner.NextRound() }
func (l *ndLedger) Wait(r basics.Round) chan struct{} {
	if r < l.inner.NextRound() {
		if g := l.node.heldGate(); g != nil {
			return g
		}
	}
	return l.inner.Wait(r)
}
func (l *ndLedger) Seed(r basics.Round) (committee.Seed, error) { return l.inner.Seed(r) }
func (l *ndLedger) LookupAgreement(r basics.Round, a basics.Address) (basics.OnlineAccountData, error) {
	return l.inner.LookupAgreement(r, a)
}
func (l *ndLedger) Circulation(r basics.Round, v basics.Round) (basics.MicroAlgos, error) {
	return l.inner.Circulation(r, v)
}
func (l *ndLedger) LookupDigest(r basics.Round) (crypto.Digest, error) {
	return l.inner.LookupDigest(r)
}
func (l *ndLedger) ConsensusParams(r basics.Round) (config.ConsensusParams, error) {
	return l.inner.ConsensusParams(r)
}
func (l *ndLedger) ConsensusVersion(r basics.Round) (protocol.ConsensusVersion, error) {
	return l.inner.ConsensusVersion(r)
}
func (l *ndLedger) EnsureBlock(b bookkeeping.Block, c Certificate) {
	if l.run.onEnsure(l.node, b, c, "block") {
		l.inner.EnsureBlock(b, c)
	}
}
func (l *ndLedger) EnsureValidatedBlock(ve ValidatedBlock, c Certificate) {
	if l.run.onEnsure(l.node, ve.Block(), c, "validated") {
		l.inner.EnsureBlock(ve.Block(), c)
	}
}
func (l *ndLedger) EnsureDigest(c Certificate, _ *AsyncVoteVerifier) { l.run.onStageDigest(l.node, c) }

// have returns the committed block of a round, if any.
func (l *ndLedger) have(r basics.Round) (bookkeeping.Block, Certificate, bool) {
	l.inner.mu.Lock()
	defer l.inner.mu.Unlock()
	b, ok := l.inner.entries[r]
	if !ok || r >= l.inner.nextRound {
		return bookkeeping.Block{}, Certificate{}, false
	}
	return b, l.inner.certs[r], true
}

// ---------------------------------------------------------------------------------------------- nodes

type ndNode struct {
	id     int
	honest bool
	run    *ndRun
	ledger *ndLedger
	acc    db.Accessor
	keys   *recordingKeyManager

	// guarded by run.qmu
	alive   bool
	gen     int // incarnation
	sum     uint
	pseudo  uint
	monitor *coserviceMonitor
	hold    bool
	gate    chan struct{}

	// guarded by run.mu (written by the hooks on the Service's mainLoop goroutine)
	svc            *Service
	clock          *ndClock
	started        bool
	round          basics.Round
	period         period
	step           step
	deadline       Deadline
	fastDl         time.Duration
	handles        int
	riCount        int
	seen           map[basics.Round]map[period]ndCache
	persistedInGen bool    // a checkpoint of a state produced by this incarnation has been seen
	attests        []*ndEv // vote entries of this node that are not yet known to be persisted or released
}

type ndCache struct {
	bottom bool
	prop   proposalValue
}

func (n *ndNode) curMonitor() *coserviceMonitor {
	n.run.qmu.Lock()
	defer n.run.qmu.Unlock()
	return n.monitor
}

func (n *ndNode) heldGate() chan struct{} {
	n.run.qmu.Lock()
	defer n.run.qmu.Unlock()
	if n.hold {
		return n.gate
	}
	return nil
}

type ndListener struct {
	run  *ndRun
	node *ndNode
	gen  int
}

func (l ndListener) inc(sum uint, st map[coserviceType]uint) { l.run.setSum(l.node, l.gen, sum, st) }
func (l ndListener) dec(sum uint, st map[coserviceType]uint) { l.run.setSum(l.node, l.gen, sum, st) }

func (r *ndRun) setSum(n *ndNode, gen int, sum uint, st map[coserviceType]uint) {
	r.qmu.Lock()
	if n.gen == gen {
		n.sum = sum
		n.pseudo = st[pseudonodeCoserviceType]
	}
	q := r.quietLocked()
	r.qmu.Unlock()
	if q {
		select {
		case r.quietCh <- struct{}{}:
		default:
		}
	}
}

func (r *ndRun) quietLocked() bool {
	for _, n := range r.nodes {
		if !n.honest || !n.alive {
			continue
		}
		if n.sum == 0 || (n.hold && n.sum == n.pseudo) {
			continue
		}
		return false
	}
	return true
}

// waitQuiet waits until every live Service is blocked in demux.next with nothing in flight (the package's own
// coserviceMonitor accounting).  A held node may keep its pseudonode task (waiting for persistence).
func (r *ndRun) waitQuiet(timeout time.Duration) bool {
	deadline := time.Now().Add(timeout)
	stable := 0
	for {
		r.qmu.Lock()
		q := r.quietLocked()
		r.qmu.Unlock()
		if q {
			stable++
			if stable >= 2 {
				return true
			}
			time.Sleep(30 * time.Microsecond)
			continue
		}
		stable = 0
		rem := time.Until(deadline)
		if rem <= 0 {
			return false
		}
		if rem > 20*time.Millisecond {
			rem = 20 * time.Millisecond
		}
		select {
		case <-r.quietCh:
		case <-time.After(rem):
		}
	}
}

// startNode creates and starts a Service for the node on its (kept) crash database and ledger.
func (r *ndRun) startNode(n *ndNode) error {
	r.qmu.Lock()
	n.gen++
	gen := n.gen
	m := new(coserviceMonitor)
	m.id = n.id
	m.coserviceListener = ndListener{run: r, node: n, gen: gen}
	n.monitor = m
	n.sum, n.pseudo = 0, 0
	n.hold, n.gate = false, nil
	r.qmu.Unlock()

	r.net.mu.Lock()
	r.net.monitors[nodeID(n.id)] = m
	r.net.voteMessages[n.id] = make(chan Message, 4096)
	r.net.payloadMessages[n.id] = make(chan Message, 4096)
	r.net.bundleMessages[n.id] = make(chan Message, 4096)
	r.net.mu.Unlock()
	endpoint := r.net.testingNetworkEndpoint(nodeID(n.id))

	clock := ndMakeClock(n)
	params := Parameters{
		Logger:         r.logger,
		Ledger:         n.ledger,
		Network:        endpoint,
		KeyManager:     n.keys,
		BlockValidator: testBlockValidator{},
		BlockFactory:   testBlockFactory{Owner: n.id},
		Clock:          clock,
		Accessor:       n.acc,
		Local:          config.Local{},
		RandomSource:   &ndRand{s: r.cfg.seed*131 + uint64(n.id)*7919 + uint64(gen)},
	}
	svc, err := MakeService(params)
	if err != nil {
		return err
	}
	svc.monitor = m
	r.mu.Lock()
	n.svc = svc
	n.clock = clock
	n.started = false
	n.persistedInGen = false
	r.mu.Unlock()
	ndReg.Store(svc, n)
	m.inc(demuxCoserviceType)
	r.qmu.Lock()
	n.alive = true
	r.qmu.Unlock()
	svc.Start()
	// the AtStart hook proves that the hooked copy of service.go is the one that was compiled
	for i := 0; i < 5000; i++ {
		r.mu.Lock()
		ok := n.started
		r.mu.Unlock()
		if ok {
			return nil
		}
		time.Sleep(time.Millisecond)
	}
	return fmt.Errorf("NetDrive hooks are not wired: verifNDAtStart was not called by Service.mainLoop (run through checks/netdrive.py's overlay)")
}

func (r *ndRun) stopNode(n *ndNode) {
	r.qmu.Lock()
	was := n.alive
	n.alive = false
	g := n.gate
	n.hold, n.gate = false, nil
	r.qmu.Unlock()
	if !was {
		return
	}
	done := make(chan struct{})
	go func() {
		defer close(done)
		n.svc.Shutdown()
	}()
	// Shutdown cancels the persistence loop's context, so a held persist is abandoned, never written.  (If the
	// demux loop is itself stuck behind the held persistence queue, the gate is opened after a grace period.)
	select {
	case <-done:
		if g != nil {
			close(g)
		}
	case <-time.After(3 * time.Second):
		if g != nil {
			close(g)
			r.note("SHUTDOWN-GATE-OPENED node=%d", n.id)
		}
		select {
		case <-done:
		case <-time.After(20 * time.Second):
			r.note("SHUTDOWN-TIMEOUT node=%d", n.id)
		}
	}
	ndReg.Delete(n.svc)
}

var ndReg sync.Map // *Service -> *ndNode

func ndQuietLogger() logging.Logger {
	l := logging.NewLogger()
	l.SetOutput(io.Discard)
	l.SetLevel(logging.Error)
	return l
}
