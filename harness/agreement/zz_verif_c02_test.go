//go:build verif

package agreement

// C02 — honest nodes never equivocate, even across crashes: the hook trace of attest → persist → checkpoint → release on
// NetDrive (N real Services, harness-owned schedule), with crashes at the hook points.
//
// Run through /verif/checks/c02hooks.py's overlay (hooked copies of service.go, actions.go, persistence.go, pseudonode.go).
// Output in $VERIF_OUT: the four NetDrive files (netdrive.trace/.log/.sched/.summary) plus
//
//	c02.trace     hook trace, grammar of the Lean acceptor `c02` (lean/AlgoVerif/Driver/C02.lean), `# schedule <id>` headers
//	c02.summary   per schedule: hits per hook point, crashes injected per hook point
//
// Hook trace lines (n = node, id = small integer naming the persistStateDone channel of one attest, att = r/p/s/val):
//
//	handle <n> <R> <P> <S> <att,…>         player.handle returned attest actions; (R,P,S) = player after the handle
//	point <n> <name> <id>                  a hook point that is only a crash point (attest, enqd, pbegin, waitbegin)
//	enq <n> <id> <att>                     pseudonodeAction.do(attest): vote task created, persist of the stash enqueued
//	persisted <n> <id> ok|err <R> <P> <S> <att,…|->   persist returned; the REAL decode of the bytes written gives (R,P,S) and these attests
//	ckpt <n> <id> ok|err                   checkpointAction.do
//	waitend <n> <id>                       the votes task passed the wait on persistStateDone
//	out <n> <id> <att>                     a vote was handed to the task's output channel
//	crash <n>                              the node stops here (Shutdown completed, or the hook-point crash: nothing later counts)
//	restart <n> restored|fresh <R> <P> <S> <att,…|->  mainLoop after restore/decode: player and pending attests
//
// Decisions added to the NetDrive schedule language (executed by this file, all others by ndRun.exec):
//
//	hcrash <n> <point> <k>                 arm: node n crashes at its k-th next hit of hook point <point>: the crash DB is
//	                                       snapshotted there, the goroutine that reached the point stops there (and, through the
//	                                       node's hook mutex, every other goroutine of the node that reaches a hook point) until
//	                                       the harness has begun the shutdown; whatever the incarnation still does is discarded
//	                                       (network output dropped, DB reverted to the snapshot); then the node restarts on it
//
//	pfail <n> <k>                          fault injection: the persist of node n's k-th next attest FAILS (the Service table of the
//	                                       crash DB is hidden around the real persist() call, the previous row stays), and the vote
//	                                       task of that attest is held before its wait on persistStateDone until the checkpoint
//	                                       action of the attest has started (the order "disk faster than signing")
//	wdelay <n> <k>                         the same order without the failure
//
// Environment: as NetDrive, plus VERIF_C02_ARM (per-mille of decisions that arm a hook crash, default by profile),
// VERIF_C02_EXTRA (generated decisions appended after a replayed schedule, default 0).

import (
	"context"
	"database/sql"
	"fmt"
	"io"
	"os"
	"path/filepath"
	"sort"
	"strings"
	"sync"
	"testing"
	"time"

	"github.com/algorand/go-algorand/logging"
	"github.com/algorand/go-algorand/zz_verif_tools/vh"
)

var c02Points = []string{"attest", "enq", "enqd", "pbegin", "persisted", "ckpt", "waitbegin", "waitend", "out"}

type c02Snap struct {
	has bool
	raw []byte
}

type c02Node struct {
	hm          sync.Mutex // serialises the node's hook points; held from pbegin to persisted (DB write and its trace line are atomic)
	persistHeld bool       // owned by the persistence goroutine
	// guarded by c02Run.mu
	frozen   bool
	froze    string
	armKind  string
	armLeft  int
	snap     c02Snap
	snapDone chan struct{}
	unblock  chan struct{} // the goroutine that hit the crash point waits here (holding hm) until the shutdown has begun
	stopping bool          // a shutdown is in progress: a crash point reached now does not block
	// persist-failure / order injection (pfail, wdelay): the k-th next attest of the node is marked at its `attest` point
	markLeft   int
	markFail   bool
	markDone   chan error // the persistStateDone channel of the marked attest
	markCkpt   bool       // its checkpointAction.do has started
	markWaited bool       // its vote task passed the wait (waitend)
	failActive bool       // owned by the persistence goroutine: the Service table is hidden (pbegin → persisted)
}

type c02Run struct {
	r  *ndRun
	mu sync.Mutex

	lines     []string
	ids       map[chan error]int
	nodes     []*c02Node
	hits      map[string]int
	crashed   map[string]int
	between   int // crashes (of any kind) while an attest of the node was enqueued but not yet released
	armed     int
	hcrash    int
	kindIdx   int
	queue     []string
	pfails    int // persists that were made to fail
	pfailAt   int // pfail decisions taken
	ckptFirst int // marked attests whose checkpoint action started while the vote task was held before its wait
}

var c02Cur *c02Run

func c02Att(r round, p period, s step, v proposalValue) string {
	return fmt.Sprintf("%d/%d/%d/%s", r, p, s, ndTok(v))
}

func c02Atts(a []action) string {
	l := []string{}
	for _, act := range a {
		if pa, ok := act.(pseudonodeAction); ok && pa.T == attest {
			l = append(l, c02Att(pa.Round, pa.Period, pa.Step, pa.Proposal))
		}
	}
	if len(l) == 0 {
		return "-"
	}
	return strings.Join(l, ",")
}

func (c *c02Run) nodeOf(who interface{}) *ndNode {
	r := c.r
	switch w := who.(type) {
	case *Service:
		if v, ok := ndReg.Load(w); ok {
			if n := v.(*ndNode); n.run == r {
				return n
			}
		}
	case *asyncPersistenceLoop:
		r.mu.Lock()
		defer r.mu.Unlock()
		for _, n := range r.nodes {
			if n.svc != nil && n.svc.persistenceLoop == w {
				return n
			}
		}
	case *coserviceMonitor:
		r.qmu.Lock()
		defer r.qmu.Unlock()
		for _, n := range r.nodes {
			if n.monitor == w {
				return n
			}
		}
	}
	return nil
}

func (c *c02Run) idLocked(done chan error) int {
	if done == nil {
		return 0
	}
	id, ok := c.ids[done]
	if !ok {
		id = len(c.ids) + 1
		c.ids[done] = id
	}
	return id
}

func okErr(err error) string {
	if err == nil {
		return "ok"
	}
	return "err"
}

// snapshot of the crash DB row (the table holds at most one row)
func c02Snapshot(n *ndNode) c02Snap {
	var s c02Snap
	err := n.acc.Atomic(func(ctx context.Context, tx *sql.Tx) error {
		var nrows int
		if err := tx.QueryRow("select count(*) from Service").Scan(&nrows); err != nil || nrows != 1 {
			return nil
		}
		if err := tx.QueryRow("select data from Service").Scan(&s.raw); err == nil {
			s.has = true
		}
		return nil
	})
	_ = err
	return s
}

func c02Revert(n *ndNode, s c02Snap) error {
	return n.acc.Atomic(func(ctx context.Context, tx *sql.Tx) error {
		if !s.has {
			_, err := tx.Exec("delete from Service")
			return err
		}
		_, err := tx.Exec("insert or replace into Service (rowid, data) values (1, ?)", s.raw)
		return err
	})
}

// c02HideTable: fault injection on the crash DB — while the table is renamed the real persist() fails ("no such table"),
// exactly as a failed write leaves the previous row untouched.
func c02HideTable(n *ndNode, hide bool) error {
	return n.acc.Atomic(func(ctx context.Context, tx *sql.Tx) error {
		q := "alter table ServiceHidden rename to Service"
		if hide {
			q = "alter table Service rename to ServiceHidden"
		}
		_, err := tx.Exec(q)
		return err
	})
}

func (c *c02Run) hook(point string, who interface{}, done chan error, r round, p period, s step, val proposalValue, err error, raw []byte) {
	n := c.nodeOf(who)
	if n == nil || !n.honest {
		return
	}
	cn := c.nodes[n.id]
	if point == "persisted" {
		if !cn.persistHeld {
			return // the incarnation was frozen at or before its pbegin
		}
		if cn.failActive {
			cn.failActive = false
			if herr := c02HideTable(n, false); herr != nil {
				c.r.note("C02-FAULT cannot restore the Service table: %v", herr)
			}
			if err == nil {
				c.r.note("C02-FAULT persist did not fail although the table was hidden")
			}
		}
	} else {
		cn.hm.Lock()
	}
	var line string
	c.mu.Lock()
	if cn.frozen {
		c.mu.Unlock()
		if point == "persisted" {
			cn.persistHeld = false
		}
		cn.hm.Unlock()
		return
	}
	id := c.idLocked(done)
	c.hits[point]++
	switch point {
	case "attest", "enqd", "pbegin", "waitbegin":
		line = fmt.Sprintf("point %d %s %d", n.id, point, id)
	case "enq":
		line = fmt.Sprintf("enq %d %d %s", n.id, id, c02Att(r, p, s, val))
	case "persisted":
		st, atts := "? ? ?", "undecodable"
		if _, _, p2, acts, derr := decode(raw, &ndClock{node: n, TA: map[TimeoutType]*ndTimeout{}}, n.svc.log, false); derr == nil {
			st, atts = fmt.Sprintf("%d %d %d", p2.Round, p2.Period, p2.Step), c02Atts(acts)
		}
		line = fmt.Sprintf("persisted %d %d %s %s %s", n.id, id, okErr(err), st, atts)
	case "ckpt":
		line = fmt.Sprintf("ckpt %d %d %s", n.id, id, okErr(err))
	case "waitend":
		line = fmt.Sprintf("waitend %d %d", n.id, id)
	case "out":
		line = fmt.Sprintf("out %d %d %s", n.id, id, c02Att(r, p, s, val))
	}
	c.lines = append(c.lines, line)
	if point == "attest" && cn.markLeft > 0 {
		cn.markLeft--
		if cn.markLeft == 0 {
			cn.markDone, cn.markCkpt, cn.markWaited = done, false, false
		}
	}
	marked := done != nil && cn.markDone == done
	if marked && point == "ckpt" {
		cn.markCkpt = true
	}
	if marked && point == "waitend" {
		cn.markWaited = true
	}
	injectFail := marked && point == "pbegin" && cn.markFail
	trigger := false
	if cn.armKind == point {
		cn.armLeft--
		if cn.armLeft <= 0 {
			trigger = true
			cn.frozen, cn.froze, cn.armKind = true, point, ""
			cn.snapDone = make(chan struct{})
			cn.unblock = nil
			if !cn.stopping {
				cn.unblock = make(chan struct{})
			}
			c.lines = append(c.lines, fmt.Sprintf("crash %d", n.id))
			c.crashed[point]++
		}
	}
	sd, ub := cn.snapDone, cn.unblock
	c.mu.Unlock()
	if trigger {
		cn.snap = c02Snapshot(n) // under hm: no persist of this node is in flight
		close(sd)
		if ub != nil {
			// the node is dead from here on: this goroutine (and, through hm, every other one that reaches a hook point)
			// stops until the harness has started the shutdown
			<-ub
		}
	}
	switch {
	case point == "pbegin" && !trigger:
		cn.persistHeld = true // keep hm until `persisted`
		if injectFail {
			if herr := c02HideTable(n, true); herr == nil {
				cn.failActive = true
				c.mu.Lock()
				c.pfails++
				c.mu.Unlock()
			}
		}
	case point == "persisted":
		cn.persistHeld = false
		cn.hm.Unlock()
	default:
		cn.hm.Unlock()
	}
	if marked && point == "waitbegin" && !trigger {
		// hold the vote task before its wait on persistStateDone until the checkpoint action of this attest has started
		// (signing / verifying slower than the disk), then give checkpointAction.do the time to get past its send
		for i := 0; i < 3000; i++ {
			c.mu.Lock()
			seen, stop := cn.markCkpt, cn.stopping || cn.frozen || cn.markDone != done
			c.mu.Unlock()
			if seen {
				c.mu.Lock()
				c.ckptFirst++
				fail := cn.markFail
				c.mu.Unlock()
				time.Sleep(5 * time.Millisecond)
				if m, isM := who.(*coserviceMonitor); isM && fail {
					go c.settleFailedTask(cn, m, done)
				}
				break
			}
			if stop {
				break
			}
			time.Sleep(time.Millisecond)
		}
	}
}

// settleFailedTask: a vote task that receives the persist error returns without decrementing the package's (test-only)
// coservice counter, so the node would never look quiescent again.  If the task has not passed its wait 300 ms after it
// was let go, the harness decrements the counter for it.
func (c *c02Run) settleFailedTask(cn *c02Node, m *coserviceMonitor, done chan error) {
	for i := 0; i < 300; i++ {
		time.Sleep(time.Millisecond)
		c.mu.Lock()
		over := cn.markWaited || cn.markDone != done
		c.mu.Unlock()
		if over {
			return
		}
	}
	m.Mutex.Lock()
	ok := m.c != nil && m.c[pseudonodeCoserviceType] > 0
	if ok {
		m.c[pseudonodeCoserviceType]--
	}
	var sum uint
	for _, v := range m.c {
		sum += v
	}
	if ok && m.coserviceListener != nil {
		m.coserviceListener.dec(sum, m.c)
	}
	m.Mutex.Unlock()
}

func (c *c02Run) isFrozen(id int) bool {
	if id < 0 || id >= len(c.nodes) {
		return false
	}
	c.mu.Lock()
	defer c.mu.Unlock()
	return c.nodes[id].frozen
}

func c02AfterHandle(s *Service, router *rootRouter, status *player, e externalEvent, a []action) {
	c := c02Cur
	if c == nil {
		ndAfterHandle(s, router, status, e, a)
		return
	}
	v, ok := ndReg.Load(s)
	if !ok {
		return
	}
	n := v.(*ndNode)
	if c.isFrozen(n.id) {
		return // nothing the incarnation does after its crash point counts
	}
	ndAfterHandle(s, router, status, e, a)
	if atts := c02Atts(a); atts != "-" {
		c.mu.Lock()
		if !c.nodes[n.id].frozen {
			c.lines = append(c.lines, fmt.Sprintf("handle %d %d %d %d %s", n.id, status.Round, status.Period, status.Step, atts))
		}
		c.mu.Unlock()
	}
}

func c02AtStart(s *Service, router *rootRouter, status *player, a []action, clock interface{}) {
	ndAtStart(s, router, status, a, clock)
	c := c02Cur
	if c == nil {
		return
	}
	v, ok := ndReg.Load(s)
	if !ok {
		return
	}
	n := v.(*ndNode)
	n.run.qmu.Lock()
	gen := n.gen
	n.run.qmu.Unlock()
	if gen <= 1 {
		return
	}
	restored := "fresh"
	if cl, isC := clock.(*ndClock); isC && cl != nil {
		if cur, isCur := s.Clock.(*ndClock); isCur && cur == cl {
			restored = "restored"
		}
	}
	c.mu.Lock()
	cn := c.nodes[n.id]
	if cn.frozen {
		cn.frozen = false // its `crash` line was written at the hook point
	} else {
		c.lines = append(c.lines, fmt.Sprintf("crash %d", n.id))
	}
	c.lines = append(c.lines, fmt.Sprintf("restart %d %s %d %d %d %s", n.id, restored, status.Round, status.Period, status.Step, c02Atts(a)))
	c.mu.Unlock()
}

// pendingRelease: the node has an attest that was enqueued and whose vote has not left yet (a crash now is a crash "between")
func (c *c02Run) pendingReleaseLocked(id int) bool {
	open := map[string]bool{}
	for _, l := range c.lines {
		f := strings.Fields(l)
		if len(f) < 3 || f[1] != fmt.Sprint(id) {
			continue
		}
		switch f[0] {
		case "enq":
			open[f[2]] = true
		case "out":
			delete(open, f[2])
		case "crash":
			open = map[string]bool{}
		}
	}
	return len(open) > 0
}

// restart: crash + restart of node n.  If the incarnation was frozen at a hook point (before or during the shutdown) the
// crash DB is reverted to the snapshot taken there: nothing the incarnation did after its crash point survives.
// stop: ndRun.stopNode, letting a goroutine blocked at a crash point go once Shutdown has closed the quit channel
func (c *c02Run) stop(n *ndNode) {
	cn := c.nodes[n.id]
	c.mu.Lock()
	cn.stopping = true
	ub := cn.unblock
	cn.unblock = nil
	c.mu.Unlock()
	if ub != nil {
		go func() {
			time.Sleep(3 * time.Millisecond)
			close(ub)
		}()
	}
	c.r.stopNode(n)
	c.mu.Lock()
	if cn.unblock != nil { // reached while stopping raced with the flag: never leave a goroutine blocked
		close(cn.unblock)
		cn.unblock = nil
	}
	c.mu.Unlock()
}

func (c *c02Run) restart(n *ndNode) {
	r := c.r
	cn := c.nodes[n.id]
	c.stop(n)
	c.mu.Lock()
	frozen, point, sd := cn.frozen, cn.froze, cn.snapDone
	cn.stopping = false
	c.mu.Unlock()
	if !frozen {
		point = "-"
	}
	r.mu.Lock()
	r.logLocked("CRASH node=%d gen=%d round=%d period=%d step=%d hook=%s", n.id, n.gen, n.round, n.period, n.step, point)
	r.mu.Unlock()
	if frozen {
		<-sd
		cn.hm.Lock()
		err := c02Revert(n, cn.snap)
		cn.hm.Unlock()
		if err != nil {
			r.fatal = "c02: cannot revert the crash DB: " + err.Error()
			panic(err)
		}
		c.hcrash++
	} else {
		r.stats.crashes++
	}
	if err := r.startNode(n); err != nil {
		r.fatal = err.Error()
		panic(err)
	}
}

func (c *c02Run) armPerMille() int {
	if v := ndEnvInt("VERIF_C02_ARM", -1); v >= 0 {
		return v
	}
	switch c.r.cfg.profile {
	case "crash":
		return 60
	case "mixed", "stall":
		return 35
	}
	return 25
}

func (c *c02Run) generate() string {
	r := c.r
	if len(c.queue) > 0 {
		l := c.queue[0]
		c.queue = c.queue[1:]
		return l
	}
	c.mu.Lock()
	anyArmed := false
	for _, cn := range c.nodes {
		if cn.armKind != "" || cn.frozen {
			anyArmed = true
		}
	}
	c.mu.Unlock()
	if !anyArmed && c.pfailAt < 5 && r.rng.Intn(1000) < 12+c.armPerMille()/4 {
		hon := r.honestIDs()
		n := hon[r.rng.Intn(len(hon))]
		c.pfailAt++
		if r.rng.Intn(4) == 0 {
			return fmt.Sprintf("wdelay %d 1", n)
		}
		k := 1 + r.rng.Intn(2)
		if r.rng.Intn(3) > 0 {
			c.queue = append(c.queue, fmt.Sprintf("hcrash %d out %d", n, k)) // crash right after a release
		}
		return fmt.Sprintf("pfail %d %d", n, k)
	}
	if !anyArmed && c.armed < 14 && r.rng.Intn(1000) < c.armPerMille() {
		hon := r.honestIDs()
		n := hon[r.rng.Intn(len(hon))]
		kind := c02Points[c.kindIdx%len(c02Points)]
		c.kindIdx++
		k := 1
		if r.rng.Intn(4) == 0 {
			k = 2
		}
		return fmt.Sprintf("hcrash %d %s %d", n, kind, k)
	}
	return r.generateWithHolds()
}

func (c *c02Run) execLine(line string) {
	r := c.r
	f := strings.Fields(line)
	if len(f) == 4 && f[0] == "hcrash" {
		id, k := -1, 1
		fmt.Sscanf(f[1], "%d", &id)
		fmt.Sscanf(f[3], "%d", &k)
		ok := false
		for _, p := range c02Points {
			ok = ok || p == f[2]
		}
		if id < 0 || id >= len(r.nodes) || !r.nodes[id].honest || !ok {
			r.diverged(line)
			return
		}
		c.mu.Lock()
		c.nodes[id].armKind, c.nodes[id].armLeft = f[2], k
		c.mu.Unlock()
		c.armed++
		return
	}
	if len(f) == 3 && (f[0] == "pfail" || f[0] == "wdelay") {
		id, k := -1, 1
		fmt.Sscanf(f[1], "%d", &id)
		fmt.Sscanf(f[2], "%d", &k)
		if id < 0 || id >= len(r.nodes) || !r.nodes[id].honest || k < 1 {
			r.diverged(line)
			return
		}
		c.mu.Lock()
		c.nodes[id].markLeft, c.nodes[id].markFail, c.nodes[id].markDone = k, f[0] == "pfail", nil
		c.mu.Unlock()
		return
	}
	if len(f) >= 2 && (f[0] == "crash" || f[0] == "crashmid") {
		id := -1
		fmt.Sscanf(f[1], "%d", &id)
		if id < 0 || id >= len(r.nodes) || !r.nodes[id].honest || (f[0] == "crashmid" && len(f) < 3) {
			r.diverged(line)
			return
		}
		if f[0] == "crashmid" {
			if m := r.lookup(f[2]); m != nil && m.dst == id {
				r.deliver(m, false)
			}
		}
		c.mu.Lock()
		if c.pendingReleaseLocked(id) {
			c.between++
		}
		c.mu.Unlock()
		c.restart(r.nodes[id])
		return
	}
	r.exec(line)
}

// waitQuiet: quiescence, or a node stopped at a crash point (it never becomes quiet: the harness crashes it at once)
func (c *c02Run) waitQuiet(timeout time.Duration) bool {
	deadline := time.Now().Add(timeout)
	for {
		c.mu.Lock()
		frozen := false
		for _, cn := range c.nodes {
			frozen = frozen || cn.frozen
		}
		c.mu.Unlock()
		if frozen {
			return true
		}
		if c.r.waitQuiet(10 * time.Millisecond) {
			return true
		}
		if time.Now().After(deadline) {
			return false
		}
	}
}

func (c *c02Run) execute(out *ndFiles, extra int) {
	r := c.r
	fmt.Fprintln(out.sched, r.cfg.header())
	out.sched.Flush()
	for _, n := range r.nodes {
		if n.honest {
			if err := r.startNode(n); err != nil {
				r.fatal = err.Error()
				panic(err)
			}
		}
	}
	if !r.waitQuiet(20 * time.Second) {
		r.note("QUIET-TIMEOUT at start")
	}
	replay := r.replay
	r.replay = nil
	total := r.cfg.maxSteps
	if replay != nil {
		total = len(replay) + extra
	}
	for step := 0; step < total; step++ {
		var line string
		if replay != nil && step < len(replay) {
			line = replay[step]
		} else {
			line = c.generate()
		}
		if line == "" || line == "end" {
			break
		}
		fmt.Fprintln(out.sched, line)
		out.sched.Flush()
		r.stats.steps++
		c.execLine(line)
		if !c.waitQuiet(15 * time.Second) {
			r.note("QUIET-TIMEOUT after `%s`", line)
			r.dumpMonitors()
			break
		}
		for _, n := range r.nodes {
			if n.honest && c.isFrozen(n.id) {
				c.mu.Lock()
				if c.pendingReleaseLocked(n.id) {
					c.between++
				}
				c.mu.Unlock()
				c.restart(n)
				if !r.waitQuiet(15 * time.Second) {
					r.note("QUIET-TIMEOUT after hook crash of node %d", n.id)
				}
				if replay == nil && r.rng.Intn(2) == 0 {
					c.queue = append(c.queue, fmt.Sprintf("crash %d", n.id)) // the double crash
				}
			}
		}
		if r.done() {
			break
		}
	}
	fmt.Fprintln(out.sched, "end")
	for _, n := range r.nodes {
		if n.honest {
			c.stop(n)
			n.acc.Close()
		}
	}
}

func TestVerifC02(t *testing.T) {
	t.Chdir(t.TempDir())
	logging.Base().SetOutput(io.Discard)
	if verifC02Hook != nil {
		t.Fatal("verifC02Hook already installed")
	}
	verifNDAtStart, verifNDAfterHandle = c02AtStart, c02AfterHandle
	verifC02Hook = func(point string, who interface{}, done chan error, r round, p period, s step, val proposalValue, err error, raw []byte) {
		if c := c02Cur; c != nil {
			c.hook(point, who, done, r, p, s, val, err, raw)
		}
	}
	defer func() { verifNDAtStart, verifNDAfterHandle, verifC02Hook, c02Cur = nil, nil, nil, nil }()
	out := ndOpenFiles()
	defer out.close()
	dir := os.Getenv("VERIF_OUT")
	if dir == "" {
		dir = os.TempDir()
	}
	tf, err := os.Create(filepath.Join(dir, "c02.trace"))
	if err != nil {
		t.Fatal(err)
	}
	defer tf.Close()
	sf, err := os.Create(filepath.Join(dir, "c02.summary"))
	if err != nil {
		t.Fatal(err)
	}
	defer sf.Close()

	var cfgs []ndConfig
	var decs [][]string
	if p := os.Getenv("VERIF_REPLAY"); p != "" {
		cfgs, decs, err = ndReadReplay(p)
		if err != nil {
			t.Fatal(err)
		}
	} else {
		count := ndEnvInt("VERIF_ND_SCHEDULES", vh.Budget(12, 600))
		from := ndEnvInt("VERIF_ND_FROM", 0)
		profiles := []string{"crash", "mixed", "crash", "stall", "crash", "lossy"}
		forced := os.Getenv("VERIF_ND_PROFILE")
		for i := from; i < count; i++ {
			if forced == "" {
				os.Setenv("VERIF_ND_PROFILE", profiles[i%len(profiles)])
			}
			cfgs = append(cfgs, ndPlan(vh.Seed()+0xC02, i, vh.Thorough()))
			decs = append(decs, nil)
		}
		if forced == "" {
			os.Unsetenv("VERIF_ND_PROFILE")
		}
	}
	for _, c := range cfgs {
		W, _ := c.W()
		ndProto(W, c.T)
	}
	extra := ndEnvInt("VERIF_C02_EXTRA", 0)
	for i, cfg := range cfgs {
		r := ndNewRun(t, cfg, decs[i])
		if err := r.checkWeights(); err != nil {
			t.Fatalf("schedule %d: committee weights are not the stakes: %v", cfg.id, err)
		}
		c := &c02Run{r: r, ids: map[chan error]int{}, hits: map[string]int{}, crashed: map[string]int{}}
		for range r.nodes {
			c.nodes = append(c.nodes, &c02Node{})
		}
		r.net.intercept(func(p multicastParams) multicastParams {
			if c.isFrozen(int(p.source)) {
				p.tag = UnknownMsgTag // a crashed node sends nothing
				return p
			}
			return r.intercept(p)
		})
		c02Cur = c
		finished := make(chan struct{})
		go func() {
			defer close(finished)
			defer func() {
				if x := recover(); x != nil {
					r.note("HARNESS-PANIC %v", x)
				}
			}()
			c.execute(out, extra)
		}()
		select {
		case <-finished:
		case <-time.After(5 * time.Minute):
			r.note("SCHEDULE-TIMEOUT")
			fmt.Fprintf(os.Stderr, "c02: schedule %d timed out\n", cfg.id)
		}
		r.write(out)
		c.mu.Lock()
		fmt.Fprintf(tf, "# schedule %d\n", cfg.id)
		for _, l := range c.lines {
			fmt.Fprintln(tf, l)
		}
		fmt.Fprintln(tf, "end")
		keys := func(m map[string]int) string {
			ks := []string{}
			for _, p := range c02Points {
				ks = append(ks, fmt.Sprintf("%s=%d", p, m[p]))
			}
			sort.Strings(ks)
			return strings.Join(ks, ",")
		}
		fmt.Fprintf(sf, "sched %d profile=%s crashes=%d hookcrashes=%d armed=%d between=%d pfails=%d ckptfirst=%d hits=%s crashedat=%s\n", cfg.id, cfg.profile,
			r.stats.crashes+c.hcrash, c.hcrash, c.armed, c.between, c.pfails, c.ckptFirst, keys(c.hits), keys(c.crashed))
		c.mu.Unlock()
		c02Cur = nil
		if r.fatal != "" {
			t.Fatalf("schedule %d: %s", cfg.id, r.fatal)
		}
	}
}
