//go:build verif

package agreement

// NetDrive, part 2: the run state, the two hooks on Service.mainLoop, and the two logs
// (abstract trace in the c01abs grammar; concrete log for the monitors).

import (
	"encoding/hex"
	"fmt"
	"sort"
	"strings"
	"sync"
	"testing"

	"github.com/algorand/go-algorand/crypto"
	"github.com/algorand/go-algorand/data/basics"
	"github.com/algorand/go-algorand/data/bookkeeping"
	"github.com/algorand/go-algorand/logging"
	"github.com/algorand/go-algorand/protocol"
	"github.com/algorand/go-algorand/zz_verif_tools/vh"
)

type ndConfig struct {
	id       int
	seed     uint64
	n        int
	w        []uint64
	honest   []bool
	T        uint64
	rounds   int
	maxSteps int
	profile  string
}

func (c ndConfig) W() (W, F uint64) {
	for i, x := range c.w {
		W += x
		if !c.honest[i] {
			F += x
		}
	}
	return
}

func (c ndConfig) header() string {
	ws, hs := make([]string, c.n), make([]string, c.n)
	for i := 0; i < c.n; i++ {
		ws[i] = fmt.Sprint(c.w[i])
		hs[i] = "0"
		if c.honest[i] {
			hs[i] = "1"
		}
	}
	return fmt.Sprintf("schedule %d seed=%d n=%d w=%s honest=%s T=%d rounds=%d steps=%d profile=%s", c.id, c.seed, c.n,
		strings.Join(ws, ","), strings.Join(hs, ","), c.T, c.rounds, c.maxSteps, c.profile)
}

// ndEv is one line of the abstract trace.  round 0 = belongs to every round history (crash).
type ndEv struct {
	round    basics.Round
	line     string
	node     int
	kind     byte // v s e c x
	gen      int
	handle   int
	sig      string // signature of (player triple, action list) after the handle that produced an attest
	p        period
	step     step
	val      string
	released bool
	persist  bool
	dropped  bool
}

type ndMsg struct {
	key      string
	src, dst int
	tag      protocol.Tag
	data     []byte
	hash     string
	consumed bool
}

type ndStats struct {
	steps, delivered, dropped, dups, timeouts, fasts, crashes, holds, parts, byzVotes, byzBundles, byzProps, catchups int
	votes, sees, enters, commits, droppedVotes, maxPeriod, diverged                                                   int
}

type ndRun struct {
	t      *testing.T
	cfg    ndConfig
	world  *ndWorld
	net    *testingNetwork
	nodes  []*ndNode
	logger logging.Logger
	rng    *vh.Rng
	start  basics.Round

	qmu     sync.Mutex
	quietCh chan struct{}

	mu        sync.Mutex
	trace     []*ndEv
	clog      []string
	pending   []*ndMsg
	byKey     map[string]*ndMsg
	keyCount  map[string]int
	delivered []map[string]bool
	values    map[basics.Round][]proposalValue
	valTok    map[string]proposalValue
	payloads  map[string]unauthenticatedProposal       // payloads seen on the wire, by value token
	wireVotes map[string]map[int][]unauthenticatedVote // "round/period/step" -> sender -> votes seen (distinct values)
	digests   map[basics.Round]map[string]bool         // honest EnsureBlock digests per round
	conflict  bool
	part      []bool
	stats     ndStats

	lp        *ndLatePay
	sw        *ndPropSwap
	fatal     string
	decisions []string
	replay    []string
	genQueue  []string
}

func ndTok(pv proposalValue) string {
	if pv == bottom {
		return "bot"
	}
	return hex.EncodeToString(pv.BlockDigest[:6]) + "." + hex.EncodeToString(pv.EncodingDigest[:2]) + "." + fmt.Sprint(uint64(pv.OriginalPeriod))
}

func (r *ndRun) note(format string, a ...interface{}) {
	r.mu.Lock()
	r.clog = append(r.clog, "NOTE "+fmt.Sprintf(format, a...))
	r.mu.Unlock()
}

func (r *ndRun) logLocked(format string, a ...interface{}) {
	r.clog = append(r.clog, fmt.Sprintf(format, a...))
}

func (r *ndRun) emitLocked(ev *ndEv) *ndEv {
	r.trace = append(r.trace, ev)
	return ev
}

func (r *ndRun) learnValueLocked(rnd basics.Round, pv proposalValue) {
	if pv == bottom {
		return
	}
	tok := ndTok(pv)
	if _, ok := r.valTok[tok]; ok {
		return
	}
	r.valTok[tok] = pv
	r.values[rnd] = append(r.values[rnd], pv)
}

// ---------------------------------------------------------------------------------------------- hooks

func ndSig(status *player, a []action) string {
	parts := make([]string, 0, len(a)+1)
	parts = append(parts, fmt.Sprintf("%d/%d/%d/%v/%d", status.Round, status.Period, status.Step, status.Napping, status.FastRecoveryDeadline))
	for _, x := range a {
		parts = append(parts, x.ComparableStr())
	}
	return strings.Join(parts, "|")
}

func ndInstallHooks() {
	verifNDAtStart = ndAtStart
	verifNDAfterHandle = ndAfterHandle
}

// scanSeesLocked emits a `see` for every next threshold newly cached by a period tracker of any round of the router.
func (r *ndRun) scanSeesLocked(n *ndNode, router *rootRouter) {
	rounds := make([]basics.Round, 0, len(router.Children))
	for rnd := range router.Children {
		rounds = append(rounds, rnd)
	}
	sort.Slice(rounds, func(i, j int) bool { return rounds[i] < rounds[j] })
	for _, rnd := range rounds {
		rr := router.Children[rnd]
		if rr == nil {
			continue
		}
		pers := make([]period, 0, len(rr.Children))
		for p := range rr.Children {
			pers = append(pers, p)
		}
		sort.Slice(pers, func(i, j int) bool { return pers[i] < pers[j] })
		for _, p := range pers {
			pr := rr.Children[p]
			if pr == nil {
				continue
			}
			c := pr.VoteTrackerPeriod.Cached
			if n.seen[rnd] == nil {
				n.seen[rnd] = map[period]ndCache{}
			}
			prev := n.seen[rnd][p]
			if c.Bottom && !prev.bottom {
				r.emitLocked(&ndEv{round: rnd, node: n.id, kind: 's', gen: n.gen, line: fmt.Sprintf("see %d %d bot", n.id, p)})
				r.stats.sees++
			}
			if c.Proposal != bottom && c.Proposal != prev.prop {
				r.emitLocked(&ndEv{round: rnd, node: n.id, kind: 's', gen: n.gen, line: fmt.Sprintf("see %d %d %s", n.id, p, ndTok(c.Proposal))})
				r.stats.sees++
			}
			n.seen[rnd][p] = ndCache{bottom: c.Bottom, prop: c.Proposal}
		}
	}
}

// causeLocked names the threshold event that moved the player into `target`: it is the freshest threshold of the round
// (voteTrackerRound forwards a threshold to the player only when it is fresher than every earlier one).
func (r *ndRun) causeLocked(n *ndNode, router *rootRouter, rnd basics.Round, target period) string {
	rr := router.Children[rnd]
	if rr != nil && rr.VoteTrackerRound.Ok {
		f := rr.VoteTrackerRound.Freshest
		switch f.T {
		case nextThreshold:
			if f.Period+1 == target {
				return "next " + ndTok(f.Proposal)
			}
		case softThreshold:
			if f.Period == target {
				return "soft " + ndTok(f.Proposal)
			}
		case certThreshold:
			if f.Period == target {
				return "cert " + ndTok(f.Proposal)
			}
		}
		r.logLocked("NOTE enter-cause-mismatch node=%d round=%d target=%d freshest=%v/%d/%d", n.id, rnd, target, f.T, f.Period, f.Step)
	}
	if target > 0 && rr != nil {
		if pr := rr.Children[target-1]; pr != nil {
			c := pr.VoteTrackerPeriod.Cached
			if c.Proposal != bottom {
				return "next " + ndTok(c.Proposal)
			}
			if c.Bottom {
				return "next bot"
			}
		}
	}
	return "next unknown-cause"
}

func (r *ndRun) enterLocked(n *ndNode, router *rootRouter, rnd basics.Round, target period) {
	r.emitLocked(&ndEv{round: rnd, node: n.id, kind: 'e', gen: n.gen, p: target,
		line: fmt.Sprintf("enter %d %d %s", n.id, target, r.causeLocked(n, router, rnd, target))})
	r.stats.enters++
	if int(target) > r.stats.maxPeriod {
		r.stats.maxPeriod = int(target)
	}
}

func (n *ndNode) copyStatusLocked(status *player) {
	n.round, n.period, n.step = status.Round, status.Period, status.Step
	n.deadline, n.fastDl = status.Deadline, status.FastRecoveryDeadline
}

func ndAfterHandle(s *Service, router *rootRouter, status *player, e externalEvent, a []action) {
	v, ok := ndReg.Load(s)
	if !ok {
		return
	}
	n := v.(*ndNode)
	r := n.run
	r.mu.Lock()
	defer r.mu.Unlock()
	n.handles++
	r.scanSeesLocked(n, router)
	if status.Round == n.round {
		if status.Period > n.period {
			r.enterLocked(n, router, status.Round, status.Period)
		} else if status.Period < n.period {
			r.logLocked("NOTE period-decreased node=%d round=%d %d->%d", n.id, status.Round, n.period, status.Period)
		}
	} else if status.Round > n.round {
		if status.Period > 0 {
			r.enterLocked(n, router, status.Round, status.Period)
		}
	} else {
		r.logLocked("NOTE round-decreased node=%d %d->%d", n.id, n.round, status.Round)
	}
	var sig string
	for _, act := range a {
		pa, isPA := act.(pseudonodeAction)
		if !isPA || pa.T != attest {
			continue
		}
		if sig == "" {
			sig = ndSig(status, a)
		}
		ev := r.emitLocked(&ndEv{round: pa.Round, node: n.id, kind: 'v', gen: n.gen, handle: n.handles, sig: sig,
			p: pa.Period, step: pa.Step, val: ndTok(pa.Proposal),
			line: fmt.Sprintf("vote %d %d %d %s", n.id, pa.Period, pa.Step, ndTok(pa.Proposal))})
		n.attests = append(n.attests, ev)
		r.stats.votes++
		r.logLocked("ATTEST node=%d gen=%d round=%d period=%d step=%d val=%s pstep=%d", n.id, n.gen, pa.Round, pa.Period, pa.Step, ndTok(pa.Proposal), status.Step)
	}
	switch e.t() {
	case checkpointReached:
		if ce, isCE := e.(checkpointEvent); isCE && ce.Err == nil {
			// the oldest unconfirmed attest of this incarnation is now on disk
			for _, ev := range n.attests {
				if ev.gen == n.gen && !ev.persist {
					h := ev.handle
					for _, ev2 := range n.attests {
						if ev2.gen == n.gen && ev2.handle == h {
							ev2.persist = true
						}
					}
					break
				}
			}
			if ce.Round > 0 {
				n.persistedInGen = true
			}
			r.logLocked("CHECKPOINT node=%d gen=%d round=%d period=%d step=%d", n.id, n.gen, ce.Round, ce.Period, ce.Step)
		}
	case roundInterruption:
		n.riCount++
	}
	n.copyStatusLocked(status)
}

func ndAtStart(s *Service, router *rootRouter, status *player, a []action, clock interface{}) {
	v, ok := ndReg.Load(s)
	if !ok {
		return
	}
	n := v.(*ndNode)
	r := n.run
	r.mu.Lock()
	defer r.mu.Unlock()
	restored := false
	if c, isC := clock.(*ndClock); isC && c != nil {
		if cur, isCur := s.Clock.(*ndClock); isCur && cur == c {
			restored = true
			n.clock = c
		}
	}
	if n.gen > 1 {
		r.onRestartLocked(n, router, status, a, restored)
	}
	n.copyStatusLocked(status)
	n.started = true
}

// onRestartLocked maps a restart to the abstract trace (see the grammar notes of Driver/C01abs.lean).
func (r *ndRun) onRestartLocked(n *ndNode, router *rootRouter, status *player, a []action, restored bool) {
	// 1. which attests of the node survive: released on the network, confirmed by a checkpoint event, or not later than
	//    the handle whose state is the one just restored.
	matched := -1
	matchedGen := -1
	if restored {
		sig := ndSig(status, a)
		for _, ev := range n.attests {
			if ev.sig == sig {
				matched, matchedGen = ev.handle, ev.gen
			}
		}
	}
	droppedNow := 0
	keep := n.attests[:0]
	for _, ev := range n.attests {
		ok := ev.released || ev.persist || (matched >= 0 && (ev.gen < matchedGen || (ev.gen == matchedGen && ev.handle <= matched)))
		if !ok {
			ev.dropped = true
			droppedNow++
			r.stats.droppedVotes++
			r.logLocked("DROPVOTE node=%d round=%d period=%d step=%d val=%s (attest neither persisted nor released before the crash)", n.id, ev.round, ev.p, ev.step, ev.val)
		}
	}
	_ = keep
	n.attests = nil // everything kept is final now
	r.emitLocked(&ndEv{round: 0, node: n.id, kind: 'x', gen: n.gen, line: fmt.Sprintf("crash %d", n.id)})
	// 2. the model reverts the node to its state at its last vote line of the round; re-emit what the restored
	//    trackers hold, and the enter that explains a larger restored period.
	n.seen = map[basics.Round]map[period]ndCache{}
	r.scanSeesLocked(n, router)
	var modelPeriod period
	for _, ev := range r.trace {
		if ev.kind == 'v' && ev.node == n.id && !ev.dropped && ev.round == status.Round {
			modelPeriod = ev.p
		}
	}
	if status.Period > modelPeriod {
		r.enterLocked(n, router, status.Round, status.Period)
	}
	r.logLocked("RESTART node=%d gen=%d restored=%v round=%d period=%d step=%d pending=%d modelperiod=%d droppedvotes=%d matched=%d",
		n.id, n.gen, restored, status.Round, status.Period, status.Step, len(a), modelPeriod, droppedNow, matched)
}

// ---------------------------------------------------------------------------------------------- ledger events

// onEnsure logs an EnsureBlock/EnsureValidatedBlock call; false = the node already holds a different block for the round.
func (r *ndRun) onEnsure(n *ndNode, b bookkeeping.Block, c Certificate, kind string) bool {
	dg := b.Digest()
	old, _, have := n.ledger.have(b.Round())
	r.mu.Lock()
	defer r.mu.Unlock()
	r.logLocked("ENSURE node=%d gen=%d round=%d digest=%s val=%s cperiod=%d cstep=%d cvotes=%d ceq=%d kind=%s", n.id, n.gen, b.Round(),
		hex.EncodeToString(dg[:8]), ndTok(c.Proposal), c.Period, c.Step, len(c.Votes), len(c.EquivocationVotes), kind)
	r.emitLocked(&ndEv{round: c.Round, node: n.id, kind: 'c', gen: n.gen, line: fmt.Sprintf("commit %d %d %s", n.id, c.Period, ndTok(c.Proposal))})
	r.stats.commits++
	if r.digests[b.Round()] == nil {
		r.digests[b.Round()] = map[string]bool{}
	}
	r.digests[b.Round()][hex.EncodeToString(dg[:8])] = true
	if len(r.digests[b.Round()]) > 1 {
		r.conflict = true
		ds := []string{}
		for d := range r.digests[b.Round()] {
			ds = append(ds, d)
		}
		sort.Strings(ds)
		r.logLocked("MONITOR-CONFLICT round=%d digests=%s", b.Round(), strings.Join(ds, ","))
	}
	if crypto.Digest(c.Proposal.BlockDigest) != dg {
		r.logLocked("NOTE ensure-digest-mismatch node=%d round=%d", n.id, b.Round())
	}
	if have && old.Digest() != dg {
		return false
	}
	return true
}

func (r *ndRun) onStageDigest(n *ndNode, c Certificate) {
	r.mu.Lock()
	r.logLocked("STAGEDIGEST node=%d round=%d period=%d val=%s", n.id, c.Round, c.Period, ndTok(c.Proposal))
	r.mu.Unlock()
}

// ---------------------------------------------------------------------------------------------- the wire

func (r *ndRun) intercept(p multicastParams) multicastParams {
	mask := make([]bool, r.cfg.n)
	for i := range mask {
		mask[i] = i != int(p.source) && i != int(p.exclude)
	}
	r.onWire(int(p.source), p.tag, p.data, mask)
	p.tag = UnknownMsgTag
	return p
}

// onWire logs a message leaving node src and queues one pending delivery per honest destination.
func (r *ndRun) onWire(src int, tag protocol.Tag, data []byte, mask []bool) {
	r.mu.Lock()
	defer r.mu.Unlock()
	h := crypto.Hash(data)
	hs := hex.EncodeToString(h[:5])
	tc := "?"
	switch tag {
	case protocol.AgreementVoteTag:
		tc = "V"
		var uv unauthenticatedVote
		if err := protocol.Decode(data, &uv); err == nil {
			r.wireVoteLocked(src, uv)
		}
	case protocol.ProposalPayloadTag:
		tc = "P"
		var tp transmittedPayload
		if err := protocol.Decode(data, &tp); err == nil {
			pv := tp.unauthenticatedProposal.value()
			r.learnValueLocked(tp.unauthenticatedProposal.Round(), pv)
			if r.payloads == nil {
				r.payloads = map[string]unauthenticatedProposal{}
			}
			r.payloads[ndTok(pv)] = tp.unauthenticatedProposal
			r.logLocked("PROPOUT src=%d round=%d val=%s pvperiod=%d h=%s", src, tp.unauthenticatedProposal.Round(), ndTok(pv), tp.PriorVote.R.Period, hs)
		}
	case protocol.VoteBundleTag:
		tc = "B"
		var ub unauthenticatedBundle
		if err := protocol.Decode(data, &ub); err == nil {
			r.logLocked("BUNDLEOUT src=%d round=%d period=%d step=%d val=%s votes=%d eq=%d", src, ub.Round, ub.Period, ub.Step, ndTok(ub.Proposal), len(ub.Votes), len(ub.EquivocationVotes))
		}
	}
	for dst := 0; dst < r.cfg.n; dst++ {
		if !mask[dst] || dst == src || !r.cfg.honest[dst] {
			continue
		}
		base := fmt.Sprintf("%d>%d:%s:%s", src, dst, tc, hs)
		k := r.keyCount[base]
		r.keyCount[base] = k + 1
		m := &ndMsg{key: fmt.Sprintf("%s#%d", base, k), src: src, dst: dst, tag: tag, data: data, hash: tc + hs}
		r.pending = append(r.pending, m)
		r.byKey[m.key] = m
	}
}

func (r *ndRun) wireVoteLocked(src int, uv unauthenticatedVote) {
	sender, known := r.world.byAddr[uv.R.Sender]
	if !known {
		sender = -1
	}
	own := 0
	if sender == src {
		own = 1
	}
	r.learnValueLocked(uv.R.Round, uv.R.Proposal)
	r.logLocked("VOTEOUT src=%d sender=%d round=%d period=%d step=%d val=%s own=%d", src, sender, uv.R.Round, uv.R.Period, uv.R.Step, ndTok(uv.R.Proposal), own)
	if sender < 0 {
		return
	}
	key := fmt.Sprintf("%d/%d/%d", uv.R.Round, uv.R.Period, uv.R.Step)
	if r.wireVotes[key] == nil {
		r.wireVotes[key] = map[int][]unauthenticatedVote{}
	}
	dup := false
	for _, o := range r.wireVotes[key][sender] {
		if o.R.Proposal == uv.R.Proposal {
			dup = true
		}
	}
	if !dup {
		r.wireVotes[key][sender] = append(r.wireVotes[key][sender], uv)
	}
	if own == 1 && uv.R.Step != propose && r.cfg.honest[sender] {
		tok := ndTok(uv.R.Proposal)
		found := false
		for i := len(r.trace) - 1; i >= 0; i-- {
			ev := r.trace[i]
			if ev.kind == 'v' && ev.node == sender && ev.round == uv.R.Round && ev.p == uv.R.Period && ev.step == uv.R.Step && ev.val == tok {
				ev.released = true
				if ev.dropped {
					// a vote whose attest was judged lost is on the wire after all: keep the line (the acceptor decides)
					ev.dropped = false
					r.logLocked("NOTE released-after-drop node=%d round=%d period=%d step=%d", sender, uv.R.Round, uv.R.Period, uv.R.Step)
				}
				found = true
				break
			}
		}
		if !found {
			// a vote of an honest key without an attest in the action stream: put it into the trace where it appears
			r.emitLocked(&ndEv{round: uv.R.Round, node: sender, kind: 'v', gen: -1, p: uv.R.Period, step: uv.R.Step, val: tok, released: true,
				line: fmt.Sprintf("vote %d %d %d %s", sender, uv.R.Period, uv.R.Step, tok)})
			r.logLocked("NOTE vote-without-attest node=%d round=%d period=%d step=%d val=%s", sender, uv.R.Round, uv.R.Period, uv.R.Step, tok)
		}
	}
}

// ---------------------------------------------------------------------------------------------- output

// traceLines renders the abstract trace: one history per round, in global event order.
func (r *ndRun) traceLines() []string {
	r.mu.Lock()
	defer r.mu.Unlock()
	roundsSet := map[basics.Round]bool{}
	for _, ev := range r.trace {
		if ev.round != 0 && !ev.dropped {
			roundsSet[ev.round] = true
		}
	}
	rounds := []basics.Round{}
	for rnd := range roundsSet {
		rounds = append(rounds, rnd)
	}
	sort.Slice(rounds, func(i, j int) bool { return rounds[i] < rounds[j] })
	ws, hs := make([]string, r.cfg.n), make([]string, r.cfg.n)
	for i := 0; i < r.cfg.n; i++ {
		ws[i] = fmt.Sprint(r.cfg.w[i])
		hs[i] = "0"
		if r.cfg.honest[i] {
			hs[i] = "1"
		}
	}
	out := []string{}
	for _, rnd := range rounds {
		out = append(out, fmt.Sprintf("# schedule %d round %d", r.cfg.id, rnd))
		out = append(out, fmt.Sprintf("params n=%d w=%s honest=%s T=%d", r.cfg.n, strings.Join(ws, ","), strings.Join(hs, ","), r.cfg.T))
		for _, ev := range r.trace {
			if ev.dropped || (ev.round != rnd && ev.round != 0) {
				continue
			}
			out = append(out, ev.line)
		}
		out = append(out, "end")
	}
	return out
}
