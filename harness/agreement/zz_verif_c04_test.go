//go:build verif

package agreement

// C04 correspondence harness: bundles, certificates, votes and equivocation pairs are BUILT from a token description
// (which key signed which raw vote, which VRF key proved which selector, which bits were flipped afterwards, which
// validity window the ledger holds for the sender) with real one-time-signature and VRF keys, and handed to the REAL
// unauthenticatedBundle.verify (with a real AsyncVoteVerifier), Certificate.Authenticate, unauthenticatedVote.verify and
// unauthenticatedEquivocationVote.verify.  The op line IS the token description, i.e. the ground truth of how every vote was
// made; the Lean model decides accept/reject from it alone (ideal signatures / VRF), never from the implementation's verdict.
//
// Op grammar (space separated; lists are ','-joined, `-` = empty list):
//   bundle <thr> <perr> <round> <period> <step> <prop> <votes> <eqs>
//   cert   <thr> <perr> <round> <period> <step> <prop> <votes> <eqs> <blkround> <blkj>
//   vote   <perr> <sender> <fv> <lv> <round> <period> <step> <prop> <cred> <sig>
//   eqvote <perr> <sender> <fv> <lv> <round> <period> <step> <cred> <prop0> <prop1> <sig0> <sig1>
//   rq     <thr> <step> <weight>
//   thr    = soft/cert/next/late/redo/down committee thresholds of the protocol the ledger reports
//   perr   = 1: the ledger fails ConsensusParams
//   prop   = origPeriod/origProposer/<digest>/<digest>        digest = r.j : r = 0 → bytes BE(j); r ≥ 1 → Digest() of block (round r, branch j)
//   vote   = sender;fv;lv;<cred>;<sig>                         fv, lv = VoteFirstValid / VoteLastValid of the sender's ledger record
//   eq     = sender;fv;lv;<cred>;<prop0>;<prop1>;<sig0>;<sig1>
//   cred   = key/flip/round/period/step/weight                VRF proof by account `key` for the selector of (round, period, step);
//                                                             weight = sortition weight of that honest proof; flip ≥ 1: bit flip-1 flipped
//   sig    = key/flip/sender/round/period/step/<prop…4 fields> one-time signature by account `key` over that raw vote
// account ids 1..verifC04N are funded online accounts with keys; id 0 = zero address; other ids = unknown addresses.
//
// Result: `accept <total weight>` / `accept` (cert) / `<weight>` (vote, eqvote) / `reject <class>`.

import (
	"context"
	"encoding/binary"
	"fmt"
	"strconv"
	"strings"
	"testing"

	"github.com/algorand/go-algorand/config"
	"github.com/algorand/go-algorand/crypto"
	"github.com/algorand/go-algorand/data/basics"
	"github.com/algorand/go-algorand/data/bookkeeping"
	"github.com/algorand/go-algorand/data/committee"
	"github.com/algorand/go-algorand/logging"
	"github.com/algorand/go-algorand/protocol"
	"github.com/algorand/go-algorand/zz_verif_tools/vh"
)

const verifC04N = 16

// ---------------------------------------------------------------------------------------------- world: keys and ledger

type verifC04World struct {
	base   config.ConsensusParams
	addrs  [verifC04N + 1]basics.Address
	vrf    [verifC04N + 1]*crypto.VRFSecrets
	ots    [verifC04N + 1]*crypto.OneTimeSignatureSecrets
	stake  [verifC04N + 1]uint64
	total  uint64
	byAddr map[basics.Address]int
	wcache map[[4]uint64]uint64
	ccache map[[4]uint64]committee.UnauthenticatedCredential
}

func verifC04MakeWorld() *verifC04World {
	w := &verifC04World{byAddr: map[basics.Address]int{}, wcache: map[[4]uint64]uint64{}, ccache: map[[4]uint64]committee.UnauthenticatedCredential{}}
	w.base = config.Consensus[protocol.ConsensusCurrentVersion]
	w.base.NumProposers = 20
	w.base.SoftCommitteeSize = 30
	w.base.CertCommitteeSize = 40
	w.base.NextCommitteeSize = 50
	w.base.LateCommitteeSize = 30
	w.base.RedoCommitteeSize = 40
	w.base.DownCommitteeSize = 50
	for k := 1; k <= verifC04N; k++ {
		var seed crypto.Seed
		copy(seed[:], fmt.Sprintf("verif-c04-account-%04d-sig-seed!!", k))
		s := crypto.GenerateSignatureSecrets(seed)
		w.addrs[k] = basics.Address(s.SignatureVerifier)
		var vseed [32]byte
		copy(vseed[:], fmt.Sprintf("verif-c04-account-%04d-vrf-seed!!", k))
		v := new(crypto.VRFSecrets)
		v.PK, v.SK = crypto.VrfKeygenFromSeed(vseed)
		w.vrf[k] = v
		rng := crypto.MakePRNG([]byte(fmt.Sprintf("verif-c04-account-%04d-ots", k)))
		w.ots[k] = crypto.GenerateOneTimeSignatureSecretsRNG(0, 12, rng)
		w.stake[k] = uint64(1+(k-1)%4) * 1000000
		w.total += w.stake[k]
		w.byAddr[w.addrs[k]] = k
	}
	return w
}

func (w *verifC04World) addr(id uint64) (a basics.Address) {
	if id == 0 {
		return
	}
	if id <= verifC04N {
		return w.addrs[id]
	}
	binary.BigEndian.PutUint64(a[0:8], id)
	a[31] = 0xEE
	return
}

// verifC04Ledger is the LedgerReader handed to the real verification code: fixed stakes and keys, a deterministic seed per
// round, the protocol (thresholds) and the per-address validity windows of the current op.
type verifC04Ledger struct {
	w      *verifC04World
	proto  config.ConsensusParams
	perr   bool
	window map[basics.Address][2]basics.Round
}

func (l *verifC04Ledger) NextRound() basics.Round         { return 1 << 40 }
func (l *verifC04Ledger) Wait(basics.Round) chan struct{} { c := make(chan struct{}); close(c); return c }
func (l *verifC04Ledger) Seed(r basics.Round) (s committee.Seed, err error) {
	var b [16]byte
	copy(b[:], "verif-c4")
	binary.BigEndian.PutUint64(b[8:], uint64(r))
	return committee.Seed(crypto.Hash(b[:])), nil
}
func (l *verifC04Ledger) LookupAgreement(r basics.Round, a basics.Address) (d basics.OnlineAccountData, err error) {
	if k, ok := l.w.byAddr[a]; ok {
		d.MicroAlgosWithRewards = basics.MicroAlgos{Raw: l.w.stake[k]}
		d.VoteID = l.w.ots[k].OneTimeSignatureVerifier
		d.SelectionID = l.w.vrf[k].PK
	}
	if win, ok := l.window[a]; ok {
		d.VoteFirstValid, d.VoteLastValid = win[0], win[1]
	}
	return d, nil
}
func (l *verifC04Ledger) Circulation(basics.Round, basics.Round) (basics.MicroAlgos, error) {
	return basics.MicroAlgos{Raw: l.w.total}, nil
}
func (l *verifC04Ledger) LookupDigest(basics.Round) (crypto.Digest, error) { return crypto.Digest{}, nil }
func (l *verifC04Ledger) ConsensusParams(basics.Round) (config.ConsensusParams, error) {
	if l.perr {
		return config.ConsensusParams{}, fmt.Errorf("verif-c04: no consensus params")
	}
	return l.proto, nil
}
func (l *verifC04Ledger) ConsensusVersion(basics.Round) (protocol.ConsensusVersion, error) {
	if l.perr {
		return "", fmt.Errorf("verif-c04: no consensus version")
	}
	return protocol.ConsensusCurrentVersion, nil
}

func (w *verifC04World) ledger(thr [6]uint64, perr bool) *verifC04Ledger {
	p := w.base
	p.SoftCommitteeThreshold, p.CertCommitteeThreshold, p.NextCommitteeThreshold = thr[0], thr[1], thr[2]
	p.LateCommitteeThreshold, p.RedoCommitteeThreshold, p.DownCommitteeThreshold = thr[3], thr[4], thr[5]
	return &verifC04Ledger{w: w, proto: p, perr: perr, window: map[basics.Address][2]basics.Round{}}
}

// honest credential of account k for the selector of (r, p, s) and its sortition weight (0 = not selected)
func (w *verifC04World) credential(k, r, p, s uint64) (committee.UnauthenticatedCredential, uint64) {
	key := [4]uint64{k, r, p, s}
	if c, ok := w.ccache[key]; ok {
		return c, w.wcache[key]
	}
	l := w.ledger([6]uint64{}, false)
	m, err := membership(l, w.addrs[k], basics.Round(r), period(p), step(s))
	if err != nil {
		panic(err)
	}
	uc := committee.MakeCredential(&w.vrf[k].SK, m.Selector)
	var wt uint64
	if c, err := uc.Verify(w.base, m); err == nil {
		wt = c.Weight
	}
	w.ccache[key], w.wcache[key] = uc, wt
	return uc, wt
}

func (w *verifC04World) weight(k, r, p, s uint64) uint64 {
	_, wt := w.credential(k, r, p, s)
	return wt
}

func (w *verifC04World) digest(r, j uint64) (d crypto.Digest) {
	if r == 0 {
		binary.BigEndian.PutUint64(d[24:32], j)
		return
	}
	return w.block(r, j).Digest()
}

func (w *verifC04World) block(r, j uint64) bookkeeping.Block {
	var br bookkeeping.BlockHash
	binary.BigEndian.PutUint64(br[24:32], j)
	return bookkeeping.Block{BlockHeader: bookkeeping.BlockHeader{Round: basics.Round(r), Branch: br}}
}

// ---------------------------------------------------------------------------------------------- tokens

type verifC04Prop struct{ op, oprop, dr, dj, er, ej uint64 }
type verifC04Raw struct {
	sender, r, p, s uint64
	prop            verifC04Prop
}
type verifC04Sig struct {
	k, f uint64
	msg  verifC04Raw
}
type verifC04Cred struct{ k, f, r, p, s, w uint64 }
type verifC04Vote struct {
	sender, fv, lv uint64
	cred           verifC04Cred
	sig            verifC04Sig
}
type verifC04Eq struct {
	sender, fv, lv uint64
	cred           verifC04Cred
	p0, p1         verifC04Prop
	s0, s1         verifC04Sig
}
type verifC04Bundle struct {
	thr     [6]uint64
	perr    bool
	r, p, s uint64
	prop    verifC04Prop
	votes   []verifC04Vote
	eqs     []verifC04Eq
	cert    bool
	br, bj  uint64
}

func (p verifC04Prop) String() string {
	return fmt.Sprintf("%d/%d/%d.%d/%d.%d", p.op, p.oprop, p.dr, p.dj, p.er, p.ej)
}
func (s verifC04Sig) String() string {
	return fmt.Sprintf("%d/%d/%d/%d/%d/%d/%s", s.k, s.f, s.msg.sender, s.msg.r, s.msg.p, s.msg.s, s.msg.prop)
}
func (c verifC04Cred) String() string {
	return fmt.Sprintf("%d/%d/%d/%d/%d/%d", c.k, c.f, c.r, c.p, c.s, c.w)
}
func (v verifC04Vote) String() string {
	return fmt.Sprintf("%d;%d;%d;%s;%s", v.sender, v.fv, v.lv, v.cred, v.sig)
}
func (e verifC04Eq) String() string {
	return fmt.Sprintf("%d;%d;%d;%s;%s;%s;%s;%s", e.sender, e.fv, e.lv, e.cred, e.p0, e.p1, e.s0, e.s1)
}
func verifC04B(b bool) string {
	if b {
		return "1"
	}
	return "0"
}
func verifC04Thr(t [6]uint64) string {
	return fmt.Sprintf("%d/%d/%d/%d/%d/%d", t[0], t[1], t[2], t[3], t[4], t[5])
}
func (b verifC04Bundle) String() string {
	vs, es := "-", "-"
	if len(b.votes) > 0 {
		x := make([]string, len(b.votes))
		for i, v := range b.votes {
			x[i] = v.String()
		}
		vs = strings.Join(x, ",")
	}
	if len(b.eqs) > 0 {
		x := make([]string, len(b.eqs))
		for i, v := range b.eqs {
			x[i] = v.String()
		}
		es = strings.Join(x, ",")
	}
	kind := "bundle"
	if b.cert {
		kind = "cert"
	}
	s := fmt.Sprintf("%s %s %s %d %d %d %s %s %s", kind, verifC04Thr(b.thr), verifC04B(b.perr), b.r, b.p, b.s, b.prop, vs, es)
	if b.cert {
		s += fmt.Sprintf(" %d %d", b.br, b.bj)
	}
	return s
}

func verifC04Nums(s, sep string, n int) []uint64 {
	f := strings.Split(s, sep)
	if len(f) != n {
		panic("bad token " + s)
	}
	out := make([]uint64, n)
	for i := range f {
		out[i] = vh.U(f[i])
	}
	return out
}

func verifC04ParseDigest(s string) (uint64, uint64) {
	x := verifC04Nums(s, ".", 2)
	return x[0], x[1]
}

func verifC04ParsePropFields(f []string) (p verifC04Prop) {
	p.op, p.oprop = vh.U(f[0]), vh.U(f[1])
	p.dr, p.dj = verifC04ParseDigest(f[2])
	p.er, p.ej = verifC04ParseDigest(f[3])
	return
}

func verifC04ParseProp(s string) verifC04Prop {
	f := strings.Split(s, "/")
	if len(f) != 4 {
		panic("bad prop " + s)
	}
	return verifC04ParsePropFields(f)
}

func verifC04ParseSig(s string) (g verifC04Sig) {
	f := strings.Split(s, "/")
	if len(f) != 10 {
		panic("bad sig " + s)
	}
	g.k, g.f = vh.U(f[0]), vh.U(f[1])
	g.msg = verifC04Raw{sender: vh.U(f[2]), r: vh.U(f[3]), p: vh.U(f[4]), s: vh.U(f[5]), prop: verifC04ParsePropFields(f[6:10])}
	return
}

func verifC04ParseCred(s string) verifC04Cred {
	x := verifC04Nums(s, "/", 6)
	return verifC04Cred{k: x[0], f: x[1], r: x[2], p: x[3], s: x[4], w: x[5]}
}

func verifC04ParseThr(s string) (t [6]uint64) {
	copy(t[:], verifC04Nums(s, "/", 6))
	return
}

func verifC04List(s string) []string {
	if s == "-" || s == "" {
		return nil
	}
	return strings.Split(s, ",")
}

// ---------------------------------------------------------------------------------------------- building the real objects

func (w *verifC04World) mkProp(p verifC04Prop) proposalValue {
	return proposalValue{OriginalPeriod: period(p.op), OriginalProposer: w.addr(p.oprop), BlockDigest: w.digest(p.dr, p.dj), EncodingDigest: w.digest(p.er, p.ej)}
}

func (w *verifC04World) mkRaw(m verifC04Raw) rawVote {
	return rawVote{Sender: w.addr(m.sender), Round: basics.Round(m.r), Period: period(m.p), Step: step(m.s), Proposal: w.mkProp(m.prop)}
}

// the signature is made exactly as makeVote does it: one-time identifier of the signed vote's round
func (w *verifC04World) mkSig(g verifC04Sig) crypto.OneTimeSignature {
	if g.k < 1 || g.k > verifC04N {
		panic("sig token: key must be a real account")
	}
	rv := w.mkRaw(g.msg)
	signer := crypto.OneTimeSigner{OneTimeSignatureSecrets: w.ots[g.k]}
	ephID := basics.OneTimeIDForRound(rv.Round, signer.KeyDilution(w.base.DefaultKeyDilution))
	sig := signer.Sign(ephID, rv)
	if (sig == crypto.OneTimeSignature{}) {
		panic("sig token: round outside the key's batches")
	}
	if g.f > 0 {
		// the verified parts: Sig, PK, PK2, PK1Sig, PK2Sig (PKSigOld is not read by Verify)
		parts := [][]byte{sig.Sig[:], sig.PK[:], sig.PK2[:], sig.PK1Sig[:], sig.PK2Sig[:]}
		bit := (g.f - 1) % 2048
		for _, part := range parts {
			if bit < uint64(len(part))*8 {
				part[bit/8] ^= 1 << (bit % 8)
				break
			}
			bit -= uint64(len(part)) * 8
		}
	}
	return sig
}

func (w *verifC04World) mkCred(c verifC04Cred) committee.UnauthenticatedCredential {
	if c.k < 1 || c.k > verifC04N {
		panic("cred token: key must be a real account")
	}
	uc, _ := w.credential(c.k, c.r, c.p, c.s)
	if c.f > 0 {
		bit := (c.f - 1) % 640
		uc.Proof[bit/8] ^= 1 << (bit % 8)
	}
	return uc
}

func (l *verifC04Ledger) setWindow(a basics.Address, fv, lv uint64) {
	if _, ok := l.window[a]; !ok { // first occurrence wins (as in the model)
		l.window[a] = [2]basics.Round{basics.Round(fv), basics.Round(lv)}
	}
}

// ---------------------------------------------------------------------------------------------- executor

type verifC04Exec struct {
	w   *verifC04World
	avv *AsyncVoteVerifier
}

func verifC04VoteErr(err error) string {
	m := err.Error()
	switch {
	case strings.Contains(m, "could not get membership parameters"):
		return "membership"
	case strings.Contains(m, "proposal-vote sender mismatches"):
		return "proposesender"
	case strings.Contains(m, "claims to repropose block from future period"):
		return "futureperiod"
	case strings.Contains(m, "cannot validate bottom"):
		return "bottom"
	case strings.Contains(m, "could not get consensus params"):
		return "params"
	case strings.Contains(m, "before VoteFirstValid"):
		return "firstvalid"
	case strings.Contains(m, "after VoteLastValid"):
		return "lastvalid"
	case strings.Contains(m, "could not verify FS signature"):
		return "sig"
	case strings.Contains(m, "sender was not selected") && strings.Contains(m, "credential has weight 0"):
		return "credzero"
	case strings.Contains(m, "sender was not selected") && strings.Contains(m, "could not verify VRF Proof"):
		return "cred"
	}
	return "other:" + m
}

func verifC04BundleErr(err error) string {
	m := err.Error()
	switch {
	case strings.Contains(m, "certificate step is"):
		return "certstep"
	case strings.Contains(m, "certificate claims to validate the wrong round"):
		return "certround"
	case strings.Contains(m, "certificate claims to validate the wrong hash"):
		return "certdigest"
	case strings.Contains(m, "unauthenticatedBundle.verify: b.Step ="):
		return "propose"
	case strings.Contains(m, "unauthenticatedBundle.verify: could not get consensus params"):
		return "params"
	case strings.Contains(m, "bundle too large"):
		return "toolarge"
	case strings.Contains(m, "unauthenticatedBundle.verify: vote ") && strings.Contains(m, "was duplicated in bundle"):
		return "dupvote"
	case strings.Contains(m, "unauthenticatedBundle.verify: equivocating vote pair ") && strings.Contains(m, "was duplicated in bundle"):
		return "dupeq"
	case strings.Contains(m, "was invalid in bundle"):
		return "invalid"
	case strings.Contains(m, "did not see enough votes"):
		return "weight"
	}
	return "other:" + m
}

func (x *verifC04Exec) build(f []string) (unauthenticatedBundle, *verifC04Ledger) {
	w := x.w
	l := w.ledger(verifC04ParseThr(f[1]), f[2] == "1")
	ub := unauthenticatedBundle{Round: basics.Round(vh.U(f[3])), Period: period(vh.U(f[4])), Step: step(vh.U(f[5])), Proposal: w.mkProp(verifC04ParseProp(f[6]))}
	for _, t := range verifC04List(f[7]) {
		g := strings.Split(t, ";")
		if len(g) != 5 {
			panic("bad vote token " + t)
		}
		a := w.addr(vh.U(g[0]))
		l.setWindow(a, vh.U(g[1]), vh.U(g[2]))
		ub.Votes = append(ub.Votes, voteAuthenticator{Sender: a, Cred: w.mkCred(verifC04ParseCred(g[3])), Sig: w.mkSig(verifC04ParseSig(g[4]))})
	}
	for _, t := range verifC04List(f[8]) {
		g := strings.Split(t, ";")
		if len(g) != 8 {
			panic("bad eq token " + t)
		}
		a := w.addr(vh.U(g[0]))
		l.setWindow(a, vh.U(g[1]), vh.U(g[2]))
		ub.EquivocationVotes = append(ub.EquivocationVotes, equivocationVoteAuthenticator{Sender: a, Cred: w.mkCred(verifC04ParseCred(g[3])),
			Proposals: [2]proposalValue{w.mkProp(verifC04ParseProp(g[4])), w.mkProp(verifC04ParseProp(g[5]))},
			Sigs:      [2]crypto.OneTimeSignature{w.mkSig(verifC04ParseSig(g[6])), w.mkSig(verifC04ParseSig(g[7]))}})
	}
	return ub, l
}

func (x *verifC04Exec) exec(op string) string {
	return vh.Catch(func() string {
		w := x.w
		f := strings.Fields(op)
		switch f[0] {
		case "bundle":
			ub, l := x.build(f)
			b, err := ub.verify(context.Background(), l, x.avv)
			if err != nil {
				return "reject " + verifC04BundleErr(err)
			}
			var wt uint64
			for _, v := range b.Votes {
				wt += v.Cred.Weight
			}
			for _, v := range b.EquivocationVotes {
				wt += v.Cred.Weight
			}
			res := "accept " + strconv.FormatUint(wt, 10)
			if len(b.Votes) != len(ub.Votes) || len(b.EquivocationVotes) != len(ub.EquivocationVotes) {
				res += " BADLEN"
			}
			return res
		case "cert":
			ub, l := x.build(f)
			err := Certificate(ub).Authenticate(w.block(vh.U(f[9]), vh.U(f[10])), l, x.avv)
			if err != nil {
				return "reject " + verifC04BundleErr(err)
			}
			return "accept"
		case "vote":
			l := w.ledger([6]uint64{}, f[1] == "1")
			a := w.addr(vh.U(f[2]))
			l.setWindow(a, vh.U(f[3]), vh.U(f[4]))
			rv := rawVote{Sender: a, Round: basics.Round(vh.U(f[5])), Period: period(vh.U(f[6])), Step: step(vh.U(f[7])), Proposal: w.mkProp(verifC04ParseProp(f[8]))}
			uv := unauthenticatedVote{R: rv, Cred: w.mkCred(verifC04ParseCred(f[9])), Sig: w.mkSig(verifC04ParseSig(f[10]))}
			v, err := uv.verify(l)
			if err != nil {
				return "reject " + verifC04VoteErr(err)
			}
			res := strconv.FormatUint(v.Cred.Weight, 10)
			if v.R != rv || v.Sig != uv.Sig || v.Cred.UnauthenticatedCredential != uv.Cred {
				res += " CHANGED"
			}
			return res
		case "eqvote":
			l := w.ledger([6]uint64{}, f[1] == "1")
			a := w.addr(vh.U(f[2]))
			l.setWindow(a, vh.U(f[3]), vh.U(f[4]))
			uev := unauthenticatedEquivocationVote{Sender: a, Round: basics.Round(vh.U(f[5])), Period: period(vh.U(f[6])), Step: step(vh.U(f[7])),
				Cred:      w.mkCred(verifC04ParseCred(f[8])),
				Proposals: [2]proposalValue{w.mkProp(verifC04ParseProp(f[9])), w.mkProp(verifC04ParseProp(f[10]))},
				Sigs:      [2]crypto.OneTimeSignature{w.mkSig(verifC04ParseSig(f[11])), w.mkSig(verifC04ParseSig(f[12]))}}
			ev, err := uev.verify(l)
			if err != nil {
				m := err.Error()
				switch {
				case strings.Contains(m, "not an equivocation pair"):
					return "reject identical"
				case strings.Contains(m, "failed to verify pair 0"):
					return "reject pair0 " + verifC04VoteErr(err)
				case strings.Contains(m, "failed to verify pair 1"):
					return "reject pair1 " + verifC04VoteErr(err)
				}
				return "reject other:" + m
			}
			return strconv.FormatUint(ev.Cred.Weight, 10)
		case "rq":
			p := w.ledger(verifC04ParseThr(f[1]), false).proto
			s := step(vh.U(f[2]))
			return fmt.Sprintf("%s %d", vh.B(s.reachesQuorum(p, vh.U(f[3]))), s.threshold(p))
		}
		return "bad-op"
	})
}

// ---------------------------------------------------------------------------------------------- generator

type verifC04Gen struct {
	w   *verifC04World
	rng *vh.Rng
	ops []string
	nb  int // bundle / cert ops emitted
}

var verifC04Steps = []uint64{1, 1, 1, 2, 2, 2, 2, 3, 3, 4, 7, 252, 253, 254, 255}
var verifC04Rounds = []uint64{1, 2, 3, 4, 5, 7, 10, 321, 9999, 10000, 10001, 99999}

func verifC04StepIdx(s uint64) int {
	switch s {
	case 1:
		return 0
	case 2:
		return 1
	case 253:
		return 3
	case 254:
		return 4
	case 255:
		return 5
	}
	return 2
}

func (g *verifC04Gen) randProp(p uint64, allowBottom bool) verifC04Prop {
	r := g.rng
	if allowBottom && r.Chance(25) {
		return verifC04Prop{}
	}
	pr := verifC04Prop{op: uint64(r.Intn(int(p) + 1)), oprop: 1 + uint64(r.Intn(verifC04N)), dj: 1 + uint64(r.Intn(6)), ej: 1 + uint64(r.Intn(3))}
	if r.Chance(10) {
		pr.op, pr.oprop = 0, 0 // only the digests distinguish it from bottom
	}
	return pr
}

func (g *verifC04Gen) otherProp(p verifC04Prop, per uint64, allowBottom bool) verifC04Prop {
	r := g.rng
	for {
		q := p
		switch r.Intn(6) {
		case 0:
			q.dj++
		case 1:
			q.ej++
		case 2:
			q.op++
		case 3:
			q.oprop = 1 + q.oprop%verifC04N
		case 4:
			if allowBottom {
				q = verifC04Prop{}
			}
		default:
			q = g.randProp(per, allowBottom)
		}
		if q != p {
			return q
		}
	}
}

// an address without keys (zero / unknown address) can only carry somebody else's signature and credential
func verifC04Key(k uint64) uint64 {
	if k < 1 || k > verifC04N {
		return 1 + k%verifC04N
	}
	return k
}

func (g *verifC04Gen) honestVote(k, r, p, s uint64, prop verifC04Prop) verifC04Vote {
	kk := verifC04Key(k)
	return verifC04Vote{sender: k, cred: verifC04Cred{k: kk, r: r, p: p, s: s, w: g.w.weight(kk, r, p, s)},
		sig: verifC04Sig{k: kk, msg: verifC04Raw{sender: k, r: r, p: p, s: s, prop: prop}}}
}

func (g *verifC04Gen) honestEq(k, r, p, s uint64, p0, p1 verifC04Prop) verifC04Eq {
	kk := verifC04Key(k)
	return verifC04Eq{sender: k, cred: verifC04Cred{k: kk, r: r, p: p, s: s, w: g.w.weight(kk, r, p, s)}, p0: p0, p1: p1,
		s0: verifC04Sig{k: kk, msg: verifC04Raw{sender: k, r: r, p: p, s: s, prop: p0}},
		s1: verifC04Sig{k: kk, msg: verifC04Raw{sender: k, r: r, p: p, s: s, prop: p1}}}
}

func (g *verifC04Gen) perm(n int) []int {
	x := make([]int, n)
	for i := range x {
		x[i] = i
	}
	for i := n - 1; i > 0; i-- {
		j := g.rng.Intn(i + 1)
		x[i], x[j] = x[j], x[i]
	}
	return x
}

func (b *verifC04Bundle) weight() (wt uint64) {
	for _, v := range b.votes {
		wt += v.cred.w
	}
	for _, e := range b.eqs {
		wt += e.cred.w
	}
	return
}

// an honest bundle for (r, p, s, prop) from `m` selected accounts, `ne` of them as equivocators; thresholds unset
func (g *verifC04Gen) honestBundle(r, p, s uint64, prop verifC04Prop, m, ne int, includeZero bool) verifC04Bundle {
	b := verifC04Bundle{r: r, p: p, s: s, prop: prop}
	for _, i := range g.perm(verifC04N) {
		k := uint64(i + 1)
		if len(b.votes)+len(b.eqs) >= m {
			break
		}
		if g.w.weight(k, r, p, s) == 0 && !includeZero {
			continue
		}
		if len(b.eqs) < ne {
			p0 := g.otherProp(prop, p, s > 2)
			if g.rng.Chance(40) {
				p0 = prop
			}
			b.eqs = append(b.eqs, g.honestEq(k, r, p, s, p0, g.otherProp(p0, p, s > 2)))
		} else {
			b.votes = append(b.votes, g.honestVote(k, r, p, s, prop))
		}
	}
	return b
}

func (g *verifC04Gen) pickThresholds(b *verifC04Bundle) {
	r := g.rng
	W := b.weight()
	nv, ne := uint64(len(b.votes)), uint64(len(b.eqs))
	for i := range b.thr {
		b.thr[i] = uint64(r.Intn(int(W) + 3))
	}
	var T uint64
	switch r.Intn(10) {
	case 0, 1, 2:
		T = W
	case 3:
		T = W + 1
	case 4:
		if W > 0 {
			T = W - 1
		}
	case 5: // dropping the lightest vote falls just below
		minw := W
		for _, v := range b.votes {
			if v.cred.w < minw {
				minw = v.cred.w
			}
		}
		T = W - minw + 1
	case 6: // count bound exactly met
		T = nv + ne
	case 7: // nv ≤ T, ne ≤ T but nv+ne > T
		lo := nv
		if ne > lo {
			lo = ne
		}
		T = lo
		if nv+ne > lo+1 {
			T = lo + uint64(r.Intn(int(nv+ne-lo)))
		}
	case 8:
		T = uint64(r.Intn(int(W) + 1))
	default:
		T = uint64(r.Intn(3))
	}
	b.thr[verifC04StepIdx(b.s)] = T
}

var verifC04Mutations = []string{"none", "none", "none", "none", "none", "none", "dupvote", "dupvoteeq", "dupeq", "drop", "drop", "hdrround", "hdrperiod", "hdrstep",
	"hdrprop", "hdrbottom", "allbottom", "eqsame", "eqbadsecond", "eqbottom", "senderswap", "sigflip", "credflip", "credswap", "credother", "sigotherkey",
	"expired", "notyet", "windowok", "zeroweight", "perr", "proposestep", "alleq", "resignround", "certasbundle", "eqsigswap", "unknownsender"}

func (g *verifC04Gen) mutate(b *verifC04Bundle, m string) {
	r := g.rng
	nv, ne := len(b.votes), len(b.eqs)
	insertVote := func(v verifC04Vote) {
		i := r.Intn(len(b.votes) + 1)
		b.votes = append(b.votes[:i], append([]verifC04Vote{v}, b.votes[i:]...)...)
	}
	switch m {
	case "dupvote":
		if nv > 0 {
			insertVote(b.votes[r.Intn(nv)])
		}
	case "dupvoteeq":
		if nv > 0 {
			v := b.votes[r.Intn(nv)]
			e := g.honestEq(v.sender, b.r, b.p, b.s, b.prop, g.otherProp(b.prop, b.p, b.s > 2))
			b.eqs = append(b.eqs, e)
		}
	case "dupeq":
		if ne > 0 {
			b.eqs = append(b.eqs, b.eqs[r.Intn(ne)])
		}
	case "drop":
		n := 1 + r.Intn(2)
		for i := 0; i < n && len(b.votes) > 0; i++ {
			j := r.Intn(len(b.votes))
			b.votes = append(b.votes[:j:j], b.votes[j+1:]...)
		}
	case "hdrround":
		b.r = verifC04Rounds[r.Intn(len(verifC04Rounds))]
		if r.Bool() {
			b.r++
		}
	case "hdrperiod":
		b.p = b.p + 1 + uint64(r.Intn(2))
	case "hdrstep":
		b.s = verifC04Steps[r.Intn(len(verifC04Steps))]
		if r.Chance(15) {
			b.s = 0
		}
	case "hdrprop":
		b.prop = g.otherProp(b.prop, b.p, false)
	case "hdrbottom":
		b.prop = verifC04Prop{}
	case "allbottom":
		b.prop = verifC04Prop{}
		for i := range b.votes {
			b.votes[i].sig.msg.prop = verifC04Prop{}
		}
	case "eqsame":
		if ne > 0 {
			i := r.Intn(ne)
			b.eqs[i].p1, b.eqs[i].s1 = b.eqs[i].p0, b.eqs[i].s0
		} else if nv > 0 {
			v := b.votes[0]
			b.votes = b.votes[1:]
			b.eqs = append(b.eqs, verifC04Eq{sender: v.sender, cred: v.cred, p0: b.prop, p1: b.prop, s0: v.sig, s1: v.sig})
		}
	case "eqbadsecond":
		if ne > 0 {
			i := r.Intn(ne)
			switch r.Intn(3) {
			case 0:
				b.eqs[i].s1.f = 1 + uint64(r.Intn(2048))
			case 1:
				b.eqs[i].s1.msg.r++
			default:
				b.eqs[i].s1 = b.eqs[i].s0 // signature of the first vote attached to the second value
			}
		}
	case "eqbottom": // value/⊥ equivocation: fine in next-type steps, the bottom rule rejects it in soft/cert
		if ne > 0 {
			i := r.Intn(ne)
			if r.Bool() {
				b.eqs[i].p1, b.eqs[i].s1.msg.prop = verifC04Prop{}, verifC04Prop{}
			} else {
				b.eqs[i].p0, b.eqs[i].s0.msg.prop = verifC04Prop{}, verifC04Prop{}
			}
			if b.eqs[i].p0 == b.eqs[i].p1 {
				b.eqs[i].p1 = g.randProp(b.p, false)
				b.eqs[i].s1.msg.prop = b.eqs[i].p1
			}
		}
	case "senderswap":
		if nv > 0 {
			i := r.Intn(nv)
			b.votes[i].sender = 1 + b.votes[i].sender%verifC04N
		} else if ne > 0 {
			b.eqs[0].sender = 1 + b.eqs[0].sender%verifC04N
		}
	case "unknownsender":
		if nv > 0 {
			b.votes[r.Intn(nv)].sender = []uint64{0, 17, 1000}[r.Intn(3)]
		}
	case "sigflip":
		if nv > 0 && (ne == 0 || r.Chance(70)) {
			b.votes[r.Intn(nv)].sig.f = 1 + uint64(r.Intn(2048))
		} else if ne > 0 {
			b.eqs[r.Intn(ne)].s0.f = 1 + uint64(r.Intn(2048))
		}
	case "credflip":
		if nv > 0 && (ne == 0 || r.Chance(70)) {
			b.votes[r.Intn(nv)].cred.f = 1 + uint64(r.Intn(640))
		} else if ne > 0 {
			b.eqs[r.Intn(ne)].cred.f = 1 + uint64(r.Intn(640))
		}
	case "credswap":
		if nv >= 2 {
			b.votes[0].cred, b.votes[1].cred = b.votes[1].cred, b.votes[0].cred
		}
	case "credother": // an honest credential of the right account for another selector
		if nv > 0 {
			i := r.Intn(nv)
			c := b.votes[i].cred
			switch r.Intn(3) {
			case 0:
				c.r++
			case 1:
				c.p++
			default:
				c.s = verifC04Steps[r.Intn(len(verifC04Steps))]
			}
			c.w = g.w.weight(c.k, c.r, c.p, c.s)
			b.votes[i].cred = c
		}
	case "sigotherkey":
		if nv > 0 {
			i := r.Intn(nv)
			b.votes[i].sig.k = 1 + b.votes[i].sig.k%verifC04N
		}
	case "eqsigswap":
		if ne > 0 {
			i := r.Intn(ne)
			b.eqs[i].s0, b.eqs[i].s1 = b.eqs[i].s1, b.eqs[i].s0
		}
	case "expired": // VoteLastValid = round-1 (≠ 0) ⇒ the key is no longer valid in this round
		if b.r > 1 {
			if nv > 0 && (ne == 0 || r.Chance(70)) {
				b.votes[r.Intn(nv)].lv = b.r - 1
			} else if ne > 0 {
				b.eqs[r.Intn(ne)].lv = b.r - 1
			}
		}
	case "notyet":
		if nv > 0 {
			b.votes[r.Intn(nv)].fv = b.r + 1 + uint64(r.Intn(3))
		}
	case "windowok":
		for i := range b.votes {
			switch r.Intn(4) {
			case 0:
				b.votes[i].fv, b.votes[i].lv = b.r, b.r
			case 1:
				b.votes[i].fv, b.votes[i].lv = 0, b.r+uint64(r.Intn(5))
			case 2:
				b.votes[i].fv, b.votes[i].lv = b.r-uint64(r.Intn(2))%(b.r+1), 0
			}
		}
	case "zeroweight":
		for k := uint64(1); k <= verifC04N; k++ {
			if g.w.weight(k, b.r, b.p, b.s) == 0 {
				used := false
				for _, v := range b.votes {
					used = used || v.sender == k
				}
				for _, e := range b.eqs {
					used = used || e.sender == k
				}
				if !used {
					insertVote(g.honestVote(k, b.r, b.p, b.s, b.prop))
					break
				}
			}
		}
	case "perr":
		b.perr = true
	case "proposestep", "resignround": // consistently re-made for another step / round: judged on its own merits
		nr, ns := b.r, uint64(0)
		if m == "resignround" {
			nr, ns = verifC04Rounds[r.Intn(len(verifC04Rounds))], b.s
		}
		for i := range b.votes {
			b.votes[i] = g.honestVote(b.votes[i].sender, nr, b.p, ns, b.prop)
		}
		for i := range b.eqs {
			b.eqs[i] = g.honestEq(b.eqs[i].sender, nr, b.p, ns, b.eqs[i].p0, b.eqs[i].p1)
		}
		b.r, b.s = nr, ns
	case "alleq": // only equivocation pairs: they count for every value
		for _, v := range b.votes {
			p0 := g.otherProp(b.prop, b.p, b.s > 2)
			b.eqs = append(b.eqs, g.honestEq(v.sender, b.r, b.p, b.s, p0, g.otherProp(p0, b.p, b.s > 2)))
		}
		b.votes = nil
		if r.Bool() {
			b.prop = g.otherProp(b.prop, b.p, true)
		}
	case "certasbundle":
		b.cert = !b.cert
		if b.cert {
			b.br, b.bj = b.r, b.prop.dj
		}
	}
}

// one random bundle / certificate case
func (g *verifC04Gen) randomBundle() {
	r := g.rng
	s := verifC04Steps[r.Intn(len(verifC04Steps))]
	rd := verifC04Rounds[r.Intn(len(verifC04Rounds))]
	p := uint64(r.Intn(3))
	asCert := s == 2 && r.Chance(60)
	prop := g.randProp(p, s > 2)
	if asCert || (r.Chance(20) && prop != (verifC04Prop{})) {
		prop.dr = rd // the value of a real block of this round
	}
	m := r.Intn(8)
	if r.Chance(5) {
		m = 8 + r.Intn(5)
	}
	ne := 0
	if r.Chance(35) {
		ne = 1 + r.Intn(2)
	}
	if ne > m {
		ne = m
	}
	b := g.honestBundle(rd, p, s, prop, m, ne, r.Chance(5))
	if asCert {
		b.cert, b.br, b.bj = true, rd, prop.dj
	}
	g.pickThresholds(&b)
	mut := verifC04Mutations[r.Intn(len(verifC04Mutations))]
	g.mutate(&b, mut)
	if r.Chance(8) {
		g.mutate(&b, verifC04Mutations[r.Intn(len(verifC04Mutations))])
	}
	if b.cert {
		switch r.Intn(12) {
		case 0:
			b.br++ // a block of another round with the same branch
		case 1:
			b.bj++ // another block of the same round
		case 2:
			b.br, b.bj = 0+b.br, b.prop.ej // digest mix-up: the encoding digest is not what the block hashes to
		case 3:
			if b.br > 1 {
				b.br--
			}
		}
	}
	if r.Chance(15) { // re-pick the thresholds around the weight the mutated bundle now claims
		g.pickThresholds(&b)
	}
	g.emitBundle(b)
}

func (g *verifC04Gen) emitBundle(b verifC04Bundle) {
	g.ops = append(g.ops, b.String())
	g.nb++
}

// every subset of the selected accounts among the first `n` for one (round, period, step), thresholds W-1, W, W+1
func (g *verifC04Gen) subsets(rd, p, s uint64, n int) {
	prop := verifC04Prop{op: 0, oprop: 1, dj: 5, ej: 1}
	var ks []uint64
	for k := uint64(1); k <= verifC04N && len(ks) < n; k++ {
		if g.w.weight(k, rd, p, s) > 0 {
			ks = append(ks, k)
		}
	}
	for mask := 0; mask < 1<<len(ks); mask++ {
		b := verifC04Bundle{r: rd, p: p, s: s, prop: prop}
		for i, k := range ks {
			if mask&(1<<i) != 0 {
				b.votes = append(b.votes, g.honestVote(k, rd, p, s, prop))
			}
		}
		full := verifC04Bundle{r: rd, p: p, s: s, prop: prop}
		for _, k := range ks {
			full.votes = append(full.votes, g.honestVote(k, rd, p, s, prop))
		}
		W := full.weight()
		// the threshold is fixed by the FULL set: which subsets still prove a quorum?
		for _, T := range []uint64{W / 2, W/2 + 1, (2*W + 2) / 3} {
			for i := range b.thr {
				b.thr[i] = T
			}
			g.emitBundle(b)
		}
	}
}

func (g *verifC04Gen) directed() {
	w := g.w
	prop := verifC04Prop{op: 0, oprop: 2, dr: 5, dj: 3, ej: 1}
	for _, s := range []uint64{1, 2, 3, 9, 253, 254, 255} {
		var ks []uint64
		for k := uint64(1); k <= verifC04N && len(ks) < 5; k++ {
			if w.weight(k, 5, 0, s) > 0 {
				ks = append(ks, k)
			}
		}
		mk := func() verifC04Bundle {
			b := verifC04Bundle{r: 5, p: 0, s: s, prop: prop}
			for _, k := range ks {
				b.votes = append(b.votes, g.honestVote(k, 5, 0, s, prop))
			}
			if s == 2 {
				b.cert, b.br, b.bj = true, 5, 3
			}
			return b
		}
		set := func(b *verifC04Bundle, T uint64) {
			for i := range b.thr {
				b.thr[i] = T
			}
		}
		W := func() uint64 { b := mk(); return b.weight() }()
		for _, T := range []uint64{W - 1, W, W + 1} { // exactly at / around the threshold
			b := mk()
			set(&b, T)
			g.emitBundle(b)
		}
		{ // duplicate voter, weight still sufficient without the copy
			b := mk()
			b.votes = append(b.votes, b.votes[0])
			set(&b, W)
			g.emitBundle(b)
			b = mk()
			b.votes = append(b.votes, b.votes[0])
			set(&b, W+b.votes[0].cred.w) // the copy's weight would be needed
			g.emitBundle(b)
			b = mk()
			b.eqs = append(b.eqs, g.honestEq(ks[0], 5, 0, s, prop, verifC04Prop{op: 0, oprop: 2, dj: 9, ej: 1}))
			set(&b, W)
			g.emitBundle(b)
		}
		{ // dropped votes: just below / at
			b := mk()
			d := b.votes[len(b.votes)-1].cred.w
			b.votes = b.votes[:len(b.votes)-1]
			set(&b, W-d)
			g.emitBundle(b)
			set(&b, W-d+1)
			g.emitBundle(b)
		}
		{ // count bounds: numVotes + numEquivocationVotes > threshold although the weight suffices
			b := mk()
			n := len(b.votes)
			e := b.votes[n-1]
			b.votes = b.votes[:n-1]
			b.eqs = append(b.eqs, g.honestEq(e.sender, 5, 0, s, prop, verifC04Prop{op: 0, oprop: 2, dj: 9, ej: 1}))
			set(&b, uint64(n-1))
			g.emitBundle(b)
			set(&b, uint64(n))
			g.emitBundle(b)
		}
		{ // identical equivocation pair with two valid signatures on the same vote
			b := mk()
			v := b.votes[0]
			b.votes = b.votes[1:]
			b.eqs = append(b.eqs, verifC04Eq{sender: v.sender, cred: v.cred, p0: prop, p1: prop, s0: v.sig, s1: v.sig})
			set(&b, W)
			g.emitBundle(b)
		}
		{ // an invalid vote on top of a quorum of valid ones
			b := mk()
			b.votes[len(b.votes)-1].sig.f = 77
			set(&b, W-b.votes[len(b.votes)-1].cred.w)
			g.emitBundle(b)
			b = mk()
			b.votes[0].cred.f = 5
			set(&b, W-b.votes[0].cred.w)
			g.emitBundle(b)
		}
		for _, f := range []func(b *verifC04Bundle){ // header changed, votes untouched
			func(b *verifC04Bundle) { b.r = 6; b.br = 6 },
			func(b *verifC04Bundle) { b.p = 1 },
			func(b *verifC04Bundle) { b.prop.dj = 4; b.bj = 4 },
			func(b *verifC04Bundle) { b.prop.ej = 2 },
			func(b *verifC04Bundle) { b.prop = verifC04Prop{} },
			func(b *verifC04Bundle) { b.br = 6 },
			func(b *verifC04Bundle) { b.bj = 4 },
			func(b *verifC04Bundle) { b.votes[0].lv = 4 },
			func(b *verifC04Bundle) { b.votes[0].lv = 5 },
			func(b *verifC04Bundle) { b.votes[0].fv = 6 },
		} {
			b := mk()
			set(&b, W)
			f(&b)
			g.emitBundle(b)
		}
		{ // another step claimed for the same votes
			b := mk()
			set(&b, W)
			b.s = map[uint64]uint64{1: 2, 2: 1, 3: 4, 9: 3, 253: 254, 254: 255, 255: 253}[s]
			g.emitBundle(b)
		}
	}
	for _, s := range []uint64{0, 1, 2, 3, 4, 100, 252, 253, 254, 255, 256} {
		for _, wt := range []uint64{0, 1, 6, 7, 8, ^uint64(0)} {
			g.ops = append(g.ops, fmt.Sprintf("rq 7/7/7/7/7/7 %d %d", s, wt))
			g.ops = append(g.ops, fmt.Sprintf("rq 1/2/3/4/5/6 %d %d", s, wt))
		}
	}
}

// single votes: the per-step rules of unauthenticatedVote.verify
func (g *verifC04Gen) randomVote() {
	r := g.rng
	k := 1 + uint64(r.Intn(verifC04N))
	rd := verifC04Rounds[r.Intn(len(verifC04Rounds))]
	p := uint64(r.Intn(3))
	s := []uint64{0, 0, 0, 1, 2, 3, 5, 253, 254, 255}[r.Intn(10)]
	var prop verifC04Prop
	switch r.Intn(6) {
	case 0: // bottom
	case 1: // fresh proposal by the sender
		prop = verifC04Prop{op: p, oprop: k, dj: 1 + uint64(r.Intn(5)), ej: 1}
	case 2: // fresh proposal claimed for someone else
		prop = verifC04Prop{op: p, oprop: 1 + k%verifC04N, dj: 1 + uint64(r.Intn(5)), ej: 1}
	case 3: // reproposal of an earlier period's value
		prop = verifC04Prop{op: uint64(r.Intn(int(p) + 1)), oprop: 1 + uint64(r.Intn(verifC04N)), dj: 2, ej: 2}
	case 4: // from a future period
		prop = verifC04Prop{op: p + 1 + uint64(r.Intn(2)), oprop: []uint64{k, 1 + k%verifC04N}[r.Intn(2)], dj: 3, ej: 1}
	default:
		prop = g.randProp(p+1, true)
	}
	v := g.honestVote(k, rd, p, s, prop)
	perr := false
	switch r.Intn(24) {
	case 0:
		v.sig.f = 1 + uint64(r.Intn(2048))
	case 1:
		v.cred.f = 1 + uint64(r.Intn(640))
	case 2:
		v.sig.msg.prop = g.otherProp(prop, p, true)
	case 3:
		v.sig.msg.r++
	case 4:
		v.sig.msg.s = verifC04Steps[r.Intn(len(verifC04Steps))]
	case 5:
		v.cred.s = verifC04Steps[r.Intn(len(verifC04Steps))]
		v.cred.w = g.w.weight(v.cred.k, v.cred.r, v.cred.p, v.cred.s)
	case 6:
		v.lv = rd - 1
	case 7:
		v.lv = rd
	case 8:
		v.fv = rd + 1
	case 9:
		v.fv = rd
		v.lv = rd + 3
	case 10:
		v.sender = 1 + k%verifC04N
	case 11:
		perr = true
	case 12:
		v.sig.msg.p++
	}
	g.ops = append(g.ops, fmt.Sprintf("vote %s %d %d %d %d %d %d %s %s %s", verifC04B(perr), v.sender, v.fv, v.lv, rd, p, s, prop, v.cred, v.sig))
}

func (g *verifC04Gen) randomEqVote() {
	r := g.rng
	k := 1 + uint64(r.Intn(verifC04N))
	rd := verifC04Rounds[r.Intn(len(verifC04Rounds))]
	p := uint64(r.Intn(3))
	s := []uint64{1, 2, 3, 3, 5, 253, 254, 255, 0}[r.Intn(9)]
	p0 := g.randProp(p, s > 2)
	p1 := g.otherProp(p0, p, true)
	e := g.honestEq(k, rd, p, s, p0, p1)
	perr := false
	switch r.Intn(16) {
	case 0:
		e.p1, e.s1 = e.p0, e.s0
	case 1:
		e.s1.f = 1 + uint64(r.Intn(2048))
	case 2:
		e.s0.f = 1 + uint64(r.Intn(2048))
	case 3:
		e.cred.f = 1 + uint64(r.Intn(640))
	case 4:
		e.s0, e.s1 = e.s1, e.s0
	case 5:
		e.lv = rd - 1
	case 6:
		e.sender = 1 + k%verifC04N
	case 7:
		perr = true
	case 8:
		e.s1 = e.s0
	}
	g.ops = append(g.ops, fmt.Sprintf("eqvote %s %d %d %d %d %d %d %s %s %s %s %s", verifC04B(perr), e.sender, e.fv, e.lv, rd, p, s, e.cred, e.p0, e.p1, e.s0, e.s1))
}

func verifC04Generate(w *verifC04World) []string {
	g := &verifC04Gen{w: w, rng: vh.NewRng(vh.Seed())}
	g.directed()
	seed := vh.Seed()
	if vh.Thorough() {
		for i := uint64(0); i < 6; i++ {
			g.subsets(1+(seed+i)%9, i%2, []uint64{1, 2, 3, 253, 254, 255}[i], 8)
		}
	} else {
		g.subsets(1+seed%9, 0, []uint64{1, 2, 3}[seed%3], 6)
	}
	budget := g.nb + vh.Budget(1500, 40000)
	for g.nb < budget {
		g.randomBundle()
	}
	for i := vh.Budget(600, 12000); i > 0; i-- {
		g.randomVote()
	}
	for i := vh.Budget(300, 6000); i > 0; i-- {
		g.randomEqVote()
	}
	return g.ops
}

func TestVerifC04(t *testing.T) {
	logging.Base().SetOutput(nullWriter{})
	logging.Base().SetLevel(logging.Error)
	w := verifC04MakeWorld()
	ops, replay := vh.ReplayOps()
	if !replay {
		ops = verifC04Generate(w)
	}
	out := vh.Open("c04")
	defer out.Close()
	avv := MakeAsyncVoteVerifier(nil)
	defer avv.Quit()
	x := &verifC04Exec{w: w, avv: avv}
	for _, op := range ops {
		out.Emit(op, x.exec(op))
	}
}
