//go:build verif

package agreement

// NetDrive (C01; reused by C02 / C05): N real agreement.Service instances (real participation keys, real vote / bundle /
// proposal verification, real persistence and restore) on the package's testingNetwork, with the harness owning the
// schedule.  See the other zz_verif_netdrive_*_test.go files for the parts; this file plans the schedules, runs them and
// writes the four output files into $VERIF_OUT:
//
//	netdrive.trace    abstract event trace, c01abs grammar, one history per (schedule, round), `# schedule <id> round <r>` headers
//	netdrive.log      concrete log, every line `S<id> <KIND> k=v …` (ENSURE, VOTEOUT, ATTEST, CHECKPOINT, CRASH, RESTART, …)
//	netdrive.sched    `schedule <id> seed=… n=… w=… honest=… T=… rounds=… steps=… profile=…` + one decision per line (replayable)
//	netdrive.summary  one line of counters per schedule
//
// Environment: VERIF_SEED, VERIF_TIER, VERIF_REPLAY (a netdrive.sched style file: exactly these schedules and decisions are
// re-executed), VERIF_ND_SCHEDULES (count), VERIF_ND_PROFILE (force one profile), VERIF_ND_NODES (force N), VERIF_ND_FROM
// (skip schedules with a smaller id), VERIF_ND_STEPS, VERIF_ND_ROUNDS, VERIF_ND_BYZ (0/1 force), VERIF_ND_NODOUBLE=1, VERIF_ND_TIMER_ORDER=1 (see the variables below).

// Concrete log grammar (netdrive.log; every line is prefixed `S<schedule id> `; val = `bot` or <digest12>.<encdigest4>.<origperiod>):
//
//	ATTEST node gen round period step val pstep      an attest action left player.handle (pstep = player.Step after the handle)
//	CHECKPOINT node gen round period step            checkpointEvent without error handled: that state is on disk
//	VOTEOUT src sender round period step val own     a vote message left node src (own=1: signed by src's own key = released)
//	BUNDLEOUT src round period step val votes eq     PROPOUT src round val pvperiod h       other messages leaving a node
//	ENSURE node gen round digest val cperiod cstep cvotes ceq kind     EnsureBlock / EnsureValidatedBlock (digest = 16 hex of Block.Digest)
//	STAGEDIGEST node round period val                EnsureDigest (certificate without block)
//	CRASH node gen round period step                 Shutdown;  RESTART node gen restored round period step pending modelperiod droppedvotes matched
//	DROPVOTE node round period step val              an attest that was neither persisted nor released before the crash (removed from the trace)
//	BYZVOTE node round period step val               CATCHUP node round from          MONITOR-CONFLICT round digests=a,b
//	NOTE …                                           harness remarks (QUIET-TIMEOUT, REPLAY-DIVERGED, enter-cause-mismatch, vote-without-attest, …)
//
// In-package entry points for other properties' harnesses: ndPlan / ndParseHeader (configurations), ndNewRun (environment),
// (*ndRun).startNode / stopNode / restart / waitQuiet / exec(decision line) / generate() / execute(out) / write(out), the scenario
// helper ndScen{do, deliver(pred), mask, credOrder, valueOf}, ndInstallHooks (verifNDAtStart / verifNDAfterHandle), byzSign / byzVote /
// byzProposal, and the wrappers ndLedger (hold gate on persistence), ndClock (fire), ndListener (quiescence).

import (
	"bufio"
	"fmt"
	"io"
	"os"
	"path/filepath"
	"strconv"
	"strings"
	"testing"
	"time"

	"github.com/algorand/go-algorand/data/basics"
	"github.com/algorand/go-algorand/logging"
	"github.com/algorand/go-algorand/protocol"
	"github.com/algorand/go-algorand/util/db"
	"github.com/algorand/go-algorand/zz_verif_tools/vh"
)

var ndNoDouble = os.Getenv("VERIF_ND_NODOUBLE") == "1"

// ndTimerOrder (VERIF_ND_TIMER_ORDER=1): fire a node's second and later fast-recovery timeouts of a period only when its Step
// is past cert, i.e. assume that timers are handled in deadline order.  Off by default: since the fix "fast-recovery vote
// gives up the earlier steps" (issueFastVote) the real code needs no such assumption, and every profile may handle a
// fast timeout at any step (a node that was stalled or down for longer than FastRecoveryLambda inside a period).
var ndTimerOrder = os.Getenv("VERIF_ND_TIMER_ORDER") == "1"

func ndEnvInt(name string, def int) int {
	if v, err := strconv.Atoi(os.Getenv(name)); err == nil {
		return v
	}
	return def
}

// ndPlan: the configuration of schedule i for the given master seed.
func ndPlan(master uint64, i int, thorough bool) ndConfig {
	rng := vh.NewRng(master*1000003 + uint64(i)*7919 + 17)
	profiles := []string{"sync", "async", "lossy", "crash", "byz", "mixed", "part", "stall", "latepay", "mixed"}
	c := ndConfig{id: i, seed: rng.U64() >> 1, n: 4, rounds: 2, maxSteps: 900, profile: profiles[i%len(profiles)]}
	if thorough {
		c.n = 4 + rng.Intn(4)
		c.rounds = 2 + rng.Intn(2)
		c.maxSteps = 1500 + 300*(c.n-4)
	}
	if v := ndEnvInt("VERIF_ND_NODES", 0); v >= 2 && v <= ndMaxNodes {
		c.n = v
	}
	if p := os.Getenv("VERIF_ND_PROFILE"); p != "" {
		c.profile = p
	}
	c.maxSteps = ndEnvInt("VERIF_ND_STEPS", c.maxSteps)
	c.rounds = ndEnvInt("VERIF_ND_ROUNDS", c.rounds)
	c.w = make([]uint64, c.n)
	c.honest = make([]bool, c.n)
	for k := range c.w {
		c.w[k] = 1
		if thorough && rng.Intn(3) == 0 {
			c.w[k] = uint64(1 + rng.Intn(3))
		}
		c.honest[k] = true
	}
	wantByz := c.profile == "byz" || c.profile == "mixed" || c.profile == "stall" || (c.profile == "latepay" && rng.Intn(2) == 0) || (thorough && rng.Intn(3) == 0)
	if v := os.Getenv("VERIF_ND_BYZ"); v != "" {
		wantByz = v == "1"
	}
	if wantByz {
		// a minority below the equivocation bound: with T = ⌊(W+F)/2⌋+1 the honest weight must still reach T
		order := make([]int, c.n)
		for k := range order {
			order[k] = k
		}
		for k := c.n - 1; k > 0; k-- {
			j := rng.Intn(k + 1)
			order[k], order[j] = order[j], order[k]
		}
		for _, k := range order {
			c.honest[k] = false
			W, F := c.W()
			if T := (W+F)/2 + 1; W-F < T || 3*F >= W {
				c.honest[k] = true
				continue
			}
			if !thorough || rng.Intn(2) == 0 {
				break
			}
		}
	}
	W, F := c.W()
	c.T = (W+F)/2 + 1
	return c
}

func ndParseHeader(line string) (c ndConfig, err error) {
	f := strings.Fields(line)
	if len(f) < 2 || f[0] != "schedule" {
		return c, fmt.Errorf("not a schedule header: %q", line)
	}
	c.id, _ = strconv.Atoi(f[1])
	for _, kv := range f[2:] {
		k, v, ok := strings.Cut(kv, "=")
		if !ok {
			continue
		}
		switch k {
		case "seed":
			c.seed, _ = strconv.ParseUint(v, 10, 64)
		case "n":
			c.n, _ = strconv.Atoi(v)
		case "w":
			for _, x := range strings.Split(v, ",") {
				u, _ := strconv.ParseUint(x, 10, 64)
				c.w = append(c.w, u)
			}
		case "honest":
			for _, x := range strings.Split(v, ",") {
				c.honest = append(c.honest, x == "1")
			}
		case "T":
			c.T, _ = strconv.ParseUint(v, 10, 64)
		case "rounds":
			c.rounds, _ = strconv.Atoi(v)
		case "steps":
			c.maxSteps, _ = strconv.Atoi(v)
		case "profile":
			c.profile = v
		}
	}
	if c.n < 2 || c.n > ndMaxNodes || len(c.w) != c.n || len(c.honest) != c.n || c.T == 0 {
		return c, fmt.Errorf("bad schedule header: %q", line)
	}
	return c, nil
}

type ndFiles struct {
	trace, log, sched, summary *bufio.Writer
	files                      []*os.File
}

func ndOpenFiles() *ndFiles {
	dir := os.Getenv("VERIF_OUT")
	if dir == "" {
		dir = os.TempDir()
	}
	o := &ndFiles{}
	mk := func(name string) *bufio.Writer {
		f, err := os.Create(filepath.Join(dir, name))
		if err != nil {
			panic(err)
		}
		o.files = append(o.files, f)
		return bufio.NewWriterSize(f, 1<<16)
	}
	o.trace, o.log, o.sched, o.summary = mk("netdrive.trace"), mk("netdrive.log"), mk("netdrive.sched"), mk("netdrive.summary")
	return o
}

func (o *ndFiles) flush() {
	o.trace.Flush()
	o.log.Flush()
	o.sched.Flush()
	o.summary.Flush()
}

func (o *ndFiles) close() {
	o.flush()
	for _, f := range o.files {
		f.Close()
	}
}

// ndNewRun builds the environment of one schedule.
func ndNewRun(t *testing.T, cfg ndConfig, replay []string) *ndRun {
	W, _ := cfg.W()
	version := ndProto(W, cfg.T)
	r := &ndRun{t: t, cfg: cfg, world: ndGetWorld(), logger: ndQuietLogger(), rng: vh.NewRng(cfg.seed), quietCh: make(chan struct{}, 1),
		byKey: map[string]*ndMsg{}, keyCount: map[string]int{}, values: map[basics.Round][]proposalValue{}, valTok: map[string]proposalValue{},
		wireVotes: map[string]map[int][]unauthenticatedVote{}, digests: map[basics.Round]map[string]bool{}, replay: replay}
	r.net = makeTestingNetwork(cfg.n, 4096, testBlockValidator{})
	r.net.intercept(r.intercept)
	state := map[basics.Address]basics.AccountData{}
	for k := 0; k < cfg.n; k++ {
		p := r.world.parts[k]
		state[p.Parent] = basics.AccountData{Status: basics.Online, MicroAlgos: basics.MicroAlgos{Raw: cfg.w[k]},
			VoteID: p.VotingSecrets().OneTimeSignatureVerifier, SelectionID: p.VRFSecrets().PK}
	}
	versionFn := func(basics.Round) (protocol.ConsensusVersion, error) { return version, nil }
	for k := 0; k < cfg.n; k++ {
		n := &ndNode{id: k, honest: cfg.honest[k], run: r, seen: map[basics.Round]map[period]ndCache{}}
		inner := makeTestLedgerWithConsensusVersion(state, versionFn).(*testLedger)
		n.ledger = &ndLedger{inner: inner, run: r, node: n}
		if n.honest {
			acc, err := db.MakeAccessor(fmt.Sprintf("verifnd-%d-%d-%d-%d", os.Getpid(), cfg.id, k, time.Now().UnixNano()), false, true)
			if err != nil {
				t.Fatal(err)
			}
			n.acc = acc
			n.keys = makeRecordingKeyManager(r.world.parts[k : k+1])
		}
		r.nodes = append(r.nodes, n)
		r.delivered = append(r.delivered, map[string]bool{})
	}
	r.start = r.nodes[0].ledger.NextRound()
	return r
}

// checkWeights: the tie of the "fixed weights" idealisation — the real credential code gives every account its stake.
func (r *ndRun) checkWeights() error {
	l := r.refLedger()
	scratch := ndGetWorld()
	for k := 0; k < r.cfg.n; k++ {
		for _, s := range []step{propose, soft, cert, next, next + 2, late, redo, down} {
			pv := proposalValue{OriginalPeriod: 0, OriginalProposer: r.world.parts[k].Parent}
			pv.BlockDigest[0] = 1
			if s == down {
				pv = bottom
			}
			uv, err := ndSignWith(scratch, k, r.start, 0, s, pv, l)
			if err != nil {
				return err
			}
			v, err := uv.verify(l)
			if err != nil {
				return fmt.Errorf("node %d step %d: %v", k, s, err)
			}
			if v.Cred.Weight != r.cfg.w[k] {
				return fmt.Errorf("node %d step %d: credential weight %d, stake %d", k, s, v.Cred.Weight, r.cfg.w[k])
			}
		}
	}
	return nil
}

func (r *ndRun) done() bool {
	for _, n := range r.nodes {
		if n.honest && n.ledger.NextRound() < r.start+basics.Round(r.cfg.rounds) {
			return false
		}
	}
	return true
}

// execute runs the schedule; decisions are appended to out.sched as they are taken (a crash of the process leaves a
// replayable prefix).
func (r *ndRun) execute(out *ndFiles) {
	fmt.Fprintln(out.sched, r.cfg.header())
	out.sched.Flush()
	for _, n := range r.nodes {
		if n.honest {
			if err := r.startNode(n); err != nil {
				r.fatal = err.Error()
				panic(err)
			}
		}
	}
	if !r.waitQuiet(20 * time.Second) {
		r.note("QUIET-TIMEOUT at start")
	}
	for step := 0; step < r.cfg.maxSteps; step++ {
		var line string
		if r.replay != nil {
			if step >= len(r.replay) {
				break
			}
			line = r.replay[step]
		} else {
			line = r.generateWithHolds()
		}
		if line == "" || line == "end" {
			break
		}
		fmt.Fprintln(out.sched, line)
		out.sched.Flush()
		r.stats.steps++
		r.exec(line)
		if !r.waitQuiet(15 * time.Second) {
			r.note("QUIET-TIMEOUT after `%s`", line)
			r.dumpMonitors()
			break
		}
		if r.done() {
			break
		}
	}
	fmt.Fprintln(out.sched, "end")
	for _, n := range r.nodes {
		if n.honest {
			r.stopNode(n)
			n.acc.Close()
		}
	}
}

func (r *ndRun) dumpMonitors() {
	r.qmu.Lock()
	defer r.qmu.Unlock()
	for _, n := range r.nodes {
		if n.honest {
			fmt.Fprintf(os.Stderr, "netdrive: node %d alive=%v sum=%d pseudo=%d hold=%v\n", n.id, n.alive, n.sum, n.pseudo, n.hold)
		}
	}
}

// generateWithHolds: a held node is eventually crashed or released.
func (r *ndRun) generateWithHolds() string {
	if len(r.genQueue) == 0 {
		for _, n := range r.nodes {
			if n.honest && n.heldGate() != nil {
				switch y := r.rng.Intn(100); {
				case y < 8 && r.mayCrash(n.id):
					return fmt.Sprintf("crash %d", n.id)
				case y < 11:
					return fmt.Sprintf("unhold %d", n.id)
				}
			}
		}
	}
	return r.generate()
}

func (r *ndRun) write(out *ndFiles) {
	for _, l := range r.traceLines() {
		fmt.Fprintln(out.trace, l)
	}
	r.mu.Lock()
	for _, l := range r.clog {
		fmt.Fprintf(out.log, "S%d %s\n", r.cfg.id, l)
	}
	s := r.stats
	roundsDone := 0
	for _, n := range r.nodes {
		if n.honest {
			if d := int(n.ledger.NextRound() - r.start); roundsDone == 0 || d < roundsDone {
				roundsDone = d
			}
		}
	}
	fmt.Fprintf(out.summary, "sched %d profile=%s n=%d T=%d steps=%d delivered=%d dropped=%d dups=%d timeouts=%d fasts=%d crashes=%d holds=%d parts=%d byzvotes=%d byzbundles=%d byzprops=%d catchups=%d votes=%d sees=%d enters=%d commits=%d droppedvotes=%d maxperiod=%d roundsdone=%d diverged=%d conflict=%v\n",
		r.cfg.id, r.cfg.profile, r.cfg.n, r.cfg.T, s.steps, s.delivered, s.dropped, s.dups, s.timeouts, s.fasts, s.crashes, s.holds, s.parts, s.byzVotes, s.byzBundles, s.byzProps, s.catchups,
		s.votes, s.sees, s.enters, s.commits, s.droppedVotes, s.maxPeriod, roundsDone, s.diverged, r.conflict)
	r.mu.Unlock()
	out.flush()
}

// ndReadReplay: [(config, decisions)] of a netdrive.sched style file.
func ndReadReplay(path string) ([]ndConfig, [][]string, error) {
	b, err := os.ReadFile(path)
	if err != nil {
		return nil, nil, err
	}
	var cfgs []ndConfig
	var decs [][]string
	for _, l := range strings.Split(string(b), "\n") {
		l = strings.TrimSpace(l)
		if l == "" || strings.HasPrefix(l, "#") {
			continue
		}
		if strings.HasPrefix(l, "schedule ") {
			c, err := ndParseHeader(l)
			if err != nil {
				return nil, nil, err
			}
			cfgs = append(cfgs, c)
			decs = append(decs, []string{})
			continue
		}
		if len(cfgs) == 0 {
			return nil, nil, fmt.Errorf("decision before a schedule header: %q", l)
		}
		if l != "end" {
			decs[len(decs)-1] = append(decs[len(decs)-1], l)
		}
	}
	return cfgs, decs, nil
}

func TestVerifNetDrive(t *testing.T) {
	t.Chdir(t.TempDir())
	logging.Base().SetOutput(io.Discard)
	ndInstallHooks()
	defer func() { verifNDAtStart, verifNDAfterHandle = nil, nil }()
	out := ndOpenFiles()
	defer out.close()

	var cfgs []ndConfig
	var decs [][]string
	if p := os.Getenv("VERIF_REPLAY"); p != "" {
		var err error
		cfgs, decs, err = ndReadReplay(p)
		if err != nil {
			t.Fatal(err)
		}
	} else {
		count := ndEnvInt("VERIF_ND_SCHEDULES", vh.Budget(40, 3000))
		from := ndEnvInt("VERIF_ND_FROM", 0)
		for i := from; i < count; i++ {
			cfgs = append(cfgs, ndPlan(vh.Seed(), i, vh.Thorough()))
			decs = append(decs, nil)
		}
	}
	for _, c := range cfgs { // register every consensus version before any Service goroutine exists
		W, _ := c.W()
		ndProto(W, c.T)
	}
	conflicts := 0
	for i, c := range cfgs {
		r := ndNewRun(t, c, decs[i])
		if err := r.checkWeights(); err != nil {
			t.Fatalf("schedule %d: committee weights are not the stakes: %v", c.id, err)
		}
		finished := make(chan struct{})
		go func() {
			defer close(finished)
			defer func() {
				if x := recover(); x != nil {
					r.note("HARNESS-PANIC %v", x)
				}
			}()
			r.execute(out)
		}()
		select {
		case <-finished:
		case <-time.After(5 * time.Minute):
			r.note("SCHEDULE-TIMEOUT")
			fmt.Fprintf(os.Stderr, "netdrive: schedule %d timed out\n", c.id)
		}
		r.write(out)
		if r.fatal != "" {
			t.Fatalf("schedule %d: %s", c.id, r.fatal)
		}
		if r.conflict {
			conflicts++
		}
	}
	if conflicts > 0 {
		t.Logf("netdrive: %d schedule(s) with two different committed digests in a round", conflicts)
	}
}
