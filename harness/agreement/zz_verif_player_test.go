//go:build verif

package agreement

// PlayerDrive: single-node, event-driven correspondence harness for PlayerM (lean/AlgoVerif/Model/Player.lean) and the
// checks C03 and C07.  One REAL rootRouter + player is fed through rootRouter.submitTop (as the package tests do) with
// generated event lists; after every event the canonical action list and the player fields are printed.
//
// Symbolic ids on the line protocol
//   sender n       address with big-endian n in bytes 0..7 (bytes.Compare order = numeric order)
//   value v        0 = bottom; v = op*1000 + round*10 + k: the proposalValue of the REAL payload
//                  {Block{Round: round, TimeStamp: v}, OriginalPeriod: op, OriginalProposer: addr(1000+k)}
//   payload v:r    that payload (r = its block round, always (v%1000)/10)
//   cred c         proposal-vote credential of rank c: real committee.Credential values pre-sorted by lowestOutput, so
//                  Cred.Less is < on ranks
//   weights        Cred.Weight; the unauthenticated credential's Proof bytes carry (sender, weight, rank) so that printed
//                  bundles / relayed votes can be mapped back
// Votes carry no real signatures: the router only ever sees *verified* events here (as in player_test.go).
//
// Op grammar (space separated, decimal)
//   reset softT certT nextT lateT redoT downT dyn f0 fN d0 dN extra lambdaF lag round period step
//   v  verified bad r p s sender weight value          vote{Present,Verified} of a voting step
//   pv verified bad sender r p value cred idx tail     proposal-vote; idx = TaskIndex (verified), tail = - | v:r (present)
//   pl verified bad value round own                    payload{Present,Verified}; own = no message handle
//   b  verified bad r p s value s:w,..|- s:w:p0:p1,..|-   bundle{Present,Verified}
//   t entropy | ft entropy | ri round | ck r p s err   timeout, fast timeout, round interruption, checkpoint
//   dump                                               canonical dump of the whole live (player, router)
//   persist msgp|reflect act|noact                     REAL encode + decode (noact: empty action list); prints the decoded (actions, player, router);
//                                                      the decoded router becomes the "shadow" that receives every later event too
//   bad: 0 ok, 1 Err set, 2 Cancelled, 3 Proto.Err set
// Result line:  <actions> | <player>  ||  <shadow actions | shadow player, or ->   [## c03=…  when an ensure was emitted]

import (
	"bytes"
	"encoding/binary"
	"fmt"
	"io"
	"os"
	"runtime/debug"
	"sort"
	"strconv"
	"strings"
	"testing"
	"time"

	"github.com/algorand/go-algorand/config"
	"github.com/algorand/go-algorand/crypto"
	"github.com/algorand/go-algorand/data/basics"
	"github.com/algorand/go-algorand/data/committee"
	"github.com/algorand/go-algorand/logging"
	"github.com/algorand/go-algorand/protocol"
	"github.com/algorand/go-algorand/util/timers"
	"github.com/algorand/go-algorand/zz_verif_tools/vh"
)

// ------------------------------------------------------------------------------------------------ symbols

func verifPlAddr(id uint64) (a basics.Address) {
	binary.BigEndian.PutUint64(a[0:8], id)
	return
}

func verifPlAddrID(a basics.Address) string {
	id := binary.BigEndian.Uint64(a[0:8])
	if verifPlAddr(id) != a {
		return "BADADDR"
	}
	return strconv.FormatUint(id, 10)
}

type verifPlSym struct {
	vals     map[uint64]proposalValue
	ids      map[proposalValue]uint64
	creds    []committee.Credential
	credRank map[crypto.Digest]int
}

var verifPlSymbols *verifPlSym

func verifPlSyms() *verifPlSym {
	if verifPlSymbols != nil {
		return verifPlSymbols
	}
	y := &verifPlSym{vals: map[uint64]proposalValue{}, ids: map[proposalValue]uint64{}, credRank: map[crypto.Digest]int{}}
	type cand struct {
		c committee.Credential
		d crypto.Digest
	}
	var cs []cand
	for i := 0; i < 256; i++ {
		var c committee.Credential
		c.Weight = 1
		binary.BigEndian.PutUint64(c.VrfOut[0:8], uint64(i)+1)
		c.VrfOut[31] = 0x7e
		cs = append(cs, cand{c, c.LowestOutputDigest()})
	}
	sort.Slice(cs, func(i, j int) bool { return bytes.Compare(cs[i].d[:], cs[j].d[:]) < 0 })
	for k := 0; k < 64; k++ {
		y.creds = append(y.creds, cs[k].c)
		y.credRank[cs[k].c.VrfOut] = k
	}
	verifPlSymbols = y
	return y
}

func (y *verifPlSym) payload(v uint64) proposal {
	var up unauthenticatedProposal
	up.Block.BlockHeader.Round = basics.Round((v % 1000) / 10)
	up.Block.BlockHeader.TimeStamp = int64(v)
	up.OriginalPeriod = period(v / 1000)
	up.OriginalProposer = verifPlAddr(1000 + v%10)
	return proposal{unauthenticatedProposal: up}
}

func (y *verifPlSym) value(v uint64) proposalValue {
	if v == 0 {
		return bottom
	}
	if pv, ok := y.vals[v]; ok {
		return pv
	}
	pv := y.payload(v).value()
	y.vals[v] = pv
	y.ids[pv] = v
	return pv
}

func (y *verifPlSym) valueID(pv proposalValue) string {
	if pv == bottom {
		return "0"
	}
	if id, ok := y.ids[pv]; ok {
		return strconv.FormatUint(id, 10)
	}
	return "BADVAL"
}

func (y *verifPlSym) payloadStr(up unauthenticatedProposal) string {
	return y.valueID(up.value()) + ":" + strconv.FormatUint(uint64(up.Round()), 10)
}

// unauthenticated credential: Proof = sender ‖ weight ‖ 0xC7 ‖ … ‖ rank
func verifPlUCred(sender, weight, rank uint64) (u committee.UnauthenticatedCredential) {
	binary.BigEndian.PutUint64(u.Proof[0:8], sender)
	binary.BigEndian.PutUint64(u.Proof[8:16], weight)
	u.Proof[16] = 0xC7
	binary.BigEndian.PutUint64(u.Proof[24:32], rank)
	return
}

func verifPlCredWeight(sender basics.Address, c committee.UnauthenticatedCredential) string {
	if c.Proof[16] != 0xC7 || verifPlAddr(binary.BigEndian.Uint64(c.Proof[0:8])) != sender {
		return "BADCRED"
	}
	return strconv.FormatUint(binary.BigEndian.Uint64(c.Proof[8:16]), 10)
}

func verifPlCredRank(c committee.UnauthenticatedCredential) string {
	if c.Proof[16] != 0xC7 {
		return "BADCRED"
	}
	return strconv.FormatUint(binary.BigEndian.Uint64(c.Proof[24:32]), 10)
}

func (y *verifPlSym) vote(sender, weight, value uint64, r round, p period, s step) vote {
	var v vote
	v.R = rawVote{Sender: verifPlAddr(sender), Round: r, Period: p, Step: s, Proposal: y.value(value)}
	v.Cred = committee.Credential{Weight: weight, UnauthenticatedCredential: verifPlUCred(sender, weight, 0)}
	binary.BigEndian.PutUint64(v.Sig.Sig[0:8], sender)
	binary.BigEndian.PutUint64(v.Sig.Sig[8:16], value)
	return v
}

func (y *verifPlSym) pvote(sender, value, rank uint64, r round, p period) vote {
	var v vote
	v.R = rawVote{Sender: verifPlAddr(sender), Round: r, Period: p, Step: propose, Proposal: y.value(value)}
	v.Cred = y.creds[rank%64]
	v.Cred.UnauthenticatedCredential = verifPlUCred(sender, 1, rank)
	binary.BigEndian.PutUint64(v.Sig.Sig[0:8], sender)
	binary.BigEndian.PutUint64(v.Sig.Sig[8:16], value)
	return v
}

func (y *verifPlSym) pvStr(r rawVote, c committee.UnauthenticatedCredential) string {
	return fmt.Sprintf("%s.%d.%d.%s.%s", verifPlAddrID(r.Sender), r.Round, r.Period, y.valueID(r.Proposal), verifPlCredRank(c))
}

// ------------------------------------------------------------------------------------------------ protocol versions

type verifPlParams struct {
	softT, certT, nextT, lateT, redoT, downT uint64
	dyn                                      bool
}

func verifPlProto(q verifPlParams) protocol.ConsensusVersion {
	cv := protocol.ConsensusVersion(fmt.Sprintf("verif-pl-%d-%d-%d-%d-%d-%d-%v", q.softT, q.certT, q.nextT, q.lateT, q.redoT, q.downT, q.dyn))
	if _, ok := config.Consensus[cv]; !ok {
		p := config.Consensus[protocol.ConsensusCurrentVersion]
		p.SoftCommitteeThreshold = q.softT
		p.CertCommitteeThreshold = q.certT
		p.NextCommitteeThreshold = q.nextT
		p.LateCommitteeThreshold = q.lateT
		p.RedoCommitteeThreshold = q.redoT
		p.DownCommitteeThreshold = q.downT
		p.DynamicFilterTimeout = q.dyn
		config.Consensus[cv] = p
	}
	return cv
}

func verifPlResetLine(q verifPlParams, r, p, s uint64) string {
	cv := verifPlProto(q)
	pr := config.Consensus[cv]
	dyn := 0
	if q.dyn {
		dyn = 1
	}
	return fmt.Sprintf("reset %d %d %d %d %d %d %d %d %d %d %d %d %d %d %d %d %d", q.softT, q.certT, q.nextT, q.lateT, q.redoT, q.downT, dyn,
		int64(pr.AgreementFilterTimeoutPeriod0), int64(pr.AgreementFilterTimeout), int64(pr.AgreementDeadlineTimeoutPeriod0),
		int64(defaultDeadlineTimeout), int64(recoveryExtraTimeout), int64(pr.FastRecoveryLambda), uint64(credentialRoundLag), r, p, s)
}

// ------------------------------------------------------------------------------------------------ one machine

type verifPlMachine struct {
	router *rootRouter
	plyr   player
}

func verifPlPanic(r interface{}) string {
	msg := fmt.Sprint(r)
	if e, ok := r.(interface{ String() (string, error) }); ok { // *logrus.Entry
		if s, err := e.String(); err == nil {
			msg = s
		}
	}
	// A Panicf inside a state machine is often masked by a second panic of a deferred tracer call
	// (voteAggregator.handle defers logVoteAggregatorResult(e, nil)): classify by the ORIGINAL panic site on the stack.
	st := strings.Split(string(debug.Stack()), "\n")
	origin := ""
	for i, l := range st {
		if strings.Contains(l, "logging.logger.Panicf(") || strings.Contains(l, "logging.logger.Panic(") {
			if i+2 < len(st) {
				origin = st[i+2]
			}
		}
	}
	switch {
	case strings.Contains(origin, "checkedListener"):
		return "PANIC contract"
	case strings.Contains(origin, "voteTracker") || strings.Contains(origin, "makeBundle"):
		return "PANIC tracker"
	case strings.Contains(origin, "proposalStore"):
		return "PANIC assemblers"
	case strings.Contains(origin, "voteAggregator"):
		return "PANIC badround"
	case origin != "":
		return "PANIC other-panicf " + strings.TrimSpace(origin)
	}
	all := strings.Join(st, " ")
	switch {
	case strings.Contains(msg, "index out of range") || strings.Contains(all, "index out of range"):
		return "PANIC tracker"
	case strings.Contains(msg, "nil pointer dereference"):
		return "PANIC nil"
	case strings.Contains(msg, "interface conversion"):
		return "PANIC cast"
	}
	if len(msg) > 160 {
		msg = msg[:160]
	}
	return "PANIC other " + strings.ReplaceAll(msg, "\n", " ")
}

// ------------------------------------------------------------------------------------------------ executor

type verifPlExec struct {
	y         *verifPlSym
	tr        *tracer
	q         verifPlParams
	cv        protocol.ConsensusVersion
	live      *verifPlMachine
	shadow    *verifPlMachine
	last      []action
	delivered map[string]uint64 // r.p.s.sender.value -> weight of the last such vote delivered as verified (kept for other harnesses)
	offRound  map[string]bool // value ids whose payload was delivered as payloadVerified while the player was in ANOTHER round (outside RunOK)
	deliveredW map[string]map[uint64]bool // r.p.s.sender.value -> all weights with which such a vote was delivered as verified
	nEnsure   int
	nBundle   int
	nPersist  int
	idxMap    map[uint64]uint64 // TaskIndex handed out by the live machine -> the one the shadow handed out for the same votePresent
}

func (x *verifPlExec) certStr(b unauthenticatedBundle) string {
	var vs, es []string
	for _, a := range b.Votes {
		vs = append(vs, verifPlAddrID(a.Sender)+":"+verifPlCredWeight(a.Sender, a.Cred))
	}
	for _, a := range b.EquivocationVotes {
		es = append(es, fmt.Sprintf("%s:%s:%s:%s", verifPlAddrID(a.Sender), verifPlCredWeight(a.Sender, a.Cred), x.y.valueID(a.Proposals[0]), x.y.valueID(a.Proposals[1])))
	}
	return fmt.Sprintf("%d %d %d %s [%s] [%s]", b.Round, b.Period, b.Step, x.y.valueID(b.Proposal), strings.Join(vs, ","), strings.Join(es, ","))
}

func (x *verifPlExec) uvStr(uv unauthenticatedVote) string {
	return fmt.Sprintf("%d.%d.%d.%s.%s", uv.R.Round, uv.R.Period, uv.R.Step, verifPlAddrID(uv.R.Sender), x.y.valueID(uv.R.Proposal))
}

func (x *verifPlExec) compoundStr(m compoundMessage) string {
	v := "-"
	if m.Vote != (unauthenticatedVote{}) {
		v = x.y.pvStr(m.Vote.R, m.Vote.Cred)
	}
	return x.y.payloadStr(m.Proposal) + " " + v
}

func verifPlB01(b bool) string {
	if b {
		return "1"
	}
	return "0"
}

func (x *verifPlExec) actStr(a0 action) string {
	switch a := a0.(type) {
	case networkAction:
		switch a.T {
		case ignore:
			return "ignore"
		case disconnect:
			return "disconnect"
		case broadcastVotes:
			type kv struct {
				k [3]uint64
				s string
			}
			var l []kv
			for _, uv := range a.UnauthenticatedVotes {
				id, _ := strconv.ParseUint(x.y.valueID(uv.R.Proposal), 10, 64)
				l = append(l, kv{[3]uint64{uint64(uv.R.Step), binary.BigEndian.Uint64(uv.R.Sender[0:8]), id}, x.uvStr(uv)})
			}
			sort.SliceStable(l, func(i, j int) bool {
				for t := 0; t < 3; t++ {
					if l[i].k[t] != l[j].k[t] {
						return l[i].k[t] < l[j].k[t]
					}
				}
				return false
			})
			var ss []string
			for _, e := range l {
				ss = append(ss, e.s)
			}
			return "bcastVotes [" + strings.Join(ss, ",") + "]"
		case relay, broadcast:
			pre := "relay"
			if a.T == broadcast {
				pre = "bcast"
			}
			switch a.Tag {
			case protocol.AgreementVoteTag:
				return pre + "Vote " + x.uvStr(a.UnauthenticatedVote)
			case protocol.VoteBundleTag:
				return pre + "Bundle " + x.certStr(a.UnauthenticatedBundle)
			case protocol.ProposalPayloadTag:
				return pre + "Compound " + x.compoundStr(a.CompoundMessage)
			}
		}
		return "BADNET " + a.String()
	case cryptoAction:
		switch a.T {
		case verifyVote:
			return fmt.Sprintf("verifyVote %d %d %d", a.Round, a.Period, a.TaskIndex)
		case verifyPayload:
			return fmt.Sprintf("verifyPayload %d %d %s %s", a.Round, a.Period, verifPlB01(a.Pinned), x.y.payloadStr(a.M.UnauthenticatedProposal))
		case verifyBundle:
			return fmt.Sprintf("verifyBundle %d %d %d", a.Round, a.Period, a.Step)
		}
		return "BADCRYPTO"
	case ensureAction:
		return "ensure " + x.y.payloadStr(a.Payload.u()) + " " + x.certStr(unauthenticatedBundle(a.Certificate))
	case stageDigestAction:
		return "stageDigest " + x.certStr(unauthenticatedBundle(a.Certificate))
	case rezeroAction:
		return fmt.Sprintf("rezero %d", a.Round)
	case pseudonodeAction:
		switch a.T {
		case attest:
			return fmt.Sprintf("attest %d %d %d %s", a.Round, a.Period, a.Step, x.y.valueID(a.Proposal))
		case assemble:
			return fmt.Sprintf("assemble %d %d", a.Round, a.Period)
		case repropose:
			return fmt.Sprintf("repropose %d %d %s", a.Round, a.Period, x.y.valueID(a.Proposal))
		}
		return "BADPSEUDO"
	case checkpointAction:
		return fmt.Sprintf("checkpoint %d %d %d %s", a.Round, a.Period, a.Step, verifPlB01(a.Err != nil))
	}
	return fmt.Sprintf("BADACTION %T", a0)
}

func (x *verifPlExec) actsStr(as []action) string {
	if len(as) == 0 {
		return "none"
	}
	var ss []string
	for _, a := range as {
		ss = append(ss, x.actStr(a))
	}
	return strings.Join(ss, "; ")
}

func (x *verifPlExec) playerStr(p player) string {
	var ks []uint64
	for k := range p.Pending.Pending {
		ks = append(ks, k)
	}
	sort.Slice(ks, func(i, j int) bool { return ks[i] < ks[j] })
	var pd []string
	for _, k := range ks {
		t := "-"
		if e := p.Pending.Pending[k]; e != nil {
			t = x.y.payloadStr(e.Input.UnauthenticatedProposal)
		}
		pd = append(pd, fmt.Sprintf("%d:%s", k, t))
	}
	s := fmt.Sprintf("R=%d P=%d S=%d LC=%d D=%d/%d N=%s F=%d PN=%d PD=[%s]", p.Round, p.Period, p.Step, p.LastConcluding, int64(p.Deadline.Duration), p.Deadline.Type,
		verifPlB01(p.Napping), int64(p.FastRecoveryDeadline), p.Pending.PendingNext, strings.Join(pd, ","))
	if p.OldDeadline != 0 {
		s += fmt.Sprintf(" OLD=%d", int64(p.OldDeadline))
	}
	return s
}

func verifPlSortedAddrs[V any](m map[basics.Address]V) []basics.Address {
	ks := make([]basics.Address, 0, len(m))
	for k := range m {
		ks = append(ks, k)
	}
	sort.Slice(ks, func(i, j int) bool { return bytes.Compare(ks[i][:], ks[j][:]) < 0 })
	return ks
}

func (x *verifPlExec) voteStr(key basics.Address, v vote) string {
	s := fmt.Sprintf("%s:%d:%s", verifPlAddrID(v.R.Sender), v.Cred.Weight, x.y.valueID(v.R.Proposal))
	if key != v.R.Sender {
		s += "!KEY"
	}
	return s
}

func (x *verifPlExec) sortedValues(n int, each func(func(proposalValue))) []proposalValue {
	type kv struct {
		id uint64
		v  proposalValue
	}
	var keys []kv
	each(func(v proposalValue) {
		id, err := strconv.ParseUint(x.y.valueID(v), 10, 64)
		if err != nil {
			id = ^uint64(0)
		}
		keys = append(keys, kv{id, v})
	})
	sort.Slice(keys, func(i, j int) bool { return keys[i].id < keys[j].id })
	out := make([]proposalValue, 0, n)
	for _, k := range keys {
		out = append(out, k.v)
	}
	return out
}

func (x *verifPlExec) trackerStr(t *voteTracker, r round, p period, s step) string {
	var vs, cs, es []string
	for _, k := range verifPlSortedAddrs(t.Voters) {
		v := t.Voters[k]
		e := x.voteStr(k, v)
		if v.R.Round != r || v.R.Period != p || v.R.Step != s {
			e += "!RPS"
		}
		vs = append(vs, e)
	}
	for _, pv := range x.sortedValues(len(t.Counts), func(f func(proposalValue)) {
		for v := range t.Counts {
			f(v)
		}
	}) {
		c := t.Counts[pv]
		var inner []string
		for _, a := range verifPlSortedAddrs(c.Votes) {
			inner = append(inner, x.voteStr(a, c.Votes[a]))
		}
		cs = append(cs, fmt.Sprintf("%s:%d:(%s)", x.y.valueID(pv), c.Count, strings.Join(inner, ",")))
	}
	for _, k := range verifPlSortedAddrs(t.Equivocators) {
		e := t.Equivocators[k]
		s0 := fmt.Sprintf("%s:%d:%s:%s", verifPlAddrID(e.Sender), e.Cred.Weight, x.y.valueID(e.Proposals[0]), x.y.valueID(e.Proposals[1]))
		if k != e.Sender {
			s0 += "!KEY"
		}
		if e.Round != r || e.Period != p || e.Step != s {
			s0 += "!RPS"
		}
		es = append(es, s0)
	}
	return fmt.Sprintf("V=[%s] C=[%s] E=[%s] EC=%d", strings.Join(vs, ","), strings.Join(cs, ","), strings.Join(es, ","), t.EquivocatorsCount)
}

func (x *verifPlExec) pvoteStr(v vote) string { return x.y.pvStr(v.R, v.Cred.UnauthenticatedCredential) }

// dump of (player, router); persisted = only what encode writes (rounds >= player.Round, exported fields)
func (x *verifPlExec) dumpStr(p player, rr *rootRouter, persisted bool) string {
	var rs []uint64
	for r := range rr.Children {
		if persisted && r < p.Round {
			continue
		}
		rs = append(rs, uint64(r))
	}
	sort.Slice(rs, func(i, j int) bool { return rs[i] < rs[j] })
	var rounds []string
	for _, r := range rs {
		c := rr.Children[round(r)]
		if c == nil {
			rounds = append(rounds, fmt.Sprintf("%d:NIL", r))
			continue
		}
		st := &c.ProposalStore
		var rel []string
		var pers []uint64
		for per := range st.Relevant {
			pers = append(pers, uint64(per))
		}
		sort.Slice(pers, func(i, j int) bool { return pers[i] < pers[j] })
		for _, per := range pers {
			rel = append(rel, fmt.Sprintf("%d:%s", per, x.y.valueID(st.Relevant[period(per)])))
		}
		var asm []string
		for _, pv := range x.sortedValues(len(st.Assemblers), func(f func(proposalValue)) {
			for v := range st.Assemblers {
				f(v)
			}
		}) {
			ea := st.Assemblers[pv]
			pipe, payl := "-", "-"
			if ea.Filled {
				pipe = x.y.payloadStr(ea.Pipeline)
			} else if ea.Pipeline.value() != (unauthenticatedProposal{}).value() {
				pipe = "UNFILLED:" + x.y.payloadStr(ea.Pipeline)
			}
			if ea.Assembled {
				payl = x.y.payloadStr(ea.Payload.u())
			} else if ea.Payload.u().value() != (unauthenticatedProposal{}).value() {
				payl = "UNASSEMBLED:" + x.y.payloadStr(ea.Payload.u())
			}
			var au []string
			for _, v := range ea.Authenticators {
				au = append(au, x.pvoteStr(v))
			}
			asm = append(asm, fmt.Sprintf("%s:(%s;%s;%s)", x.y.valueID(pv), pipe, payl, strings.Join(au, "/")))
		}
		f := c.VoteTrackerRound.Freshest
		kind := map[eventType]int{none: 0, softThreshold: 1, certThreshold: 2, nextThreshold: 3}[f.T]
		fb := f.Bundle
		frs := fmt.Sprintf("%d %d %d %s", f.Round, f.Period, f.Step, x.y.valueID(f.Proposal))
		cs := x.certStr(fb)
		// votes part of certStr only; header from the event itself
		cs = cs[strings.Index(cs, "["):]
		if f.T != none && (fb.Round != f.Round || fb.Period != f.Period || fb.Step != f.Step) {
			cs += "!BUNDLEHDR"
		}
		var ps []uint64
		for per := range c.Children {
			ps = append(ps, uint64(per))
		}
		sort.Slice(ps, func(i, j int) bool { return ps[i] < ps[j] })
		var periods []string
		for _, per := range ps {
			pc := c.Children[period(per)]
			if pc == nil {
				periods = append(periods, fmt.Sprintf("%d:NIL", per))
				continue
			}
			t := &pc.ProposalTracker
			var dup []uint64
			for a, b := range t.Duplicate {
				if b {
					dup = append(dup, binary.BigEndian.Uint64(a[0:8]))
				} else {
					dup = append(dup, 999999)
				}
			}
			sort.Slice(dup, func(i, j int) bool { return dup[i] < dup[j] })
			var ds []string
			for _, d := range dup {
				ds = append(ds, strconv.FormatUint(d, 10))
			}
			low, late := "-", "-"
			if t.Freezer.Filled {
				low = x.pvoteStr(t.Freezer.Lowest)
			}
			if !persisted && t.Freezer.hasLowestIncludingLate {
				late = x.pvoteStr(t.Freezer.lowestIncludingLate)
			}
			pcn := pc.ProposalTrackerContract
			var ss []uint64
			for s := range pc.Children {
				ss = append(ss, uint64(s))
			}
			sort.Slice(ss, func(i, j int) bool { return ss[i] < ss[j] })
			var steps []string
			for _, s := range ss {
				sc := pc.Children[step(s)]
				if sc == nil {
					steps = append(steps, fmt.Sprintf("%d:NIL", s))
					continue
				}
				vc := sc.VoteTrackerContract
				steps = append(steps, fmt.Sprintf("%d:{%s vc(%d,%s,%s)}", s, x.trackerStr(&sc.VoteTracker, round(r), period(per), step(s)), vc.Step, verifPlB01(vc.StepOk), verifPlB01(vc.Emitted)))
			}
			ca := pc.VoteTrackerPeriod.Cached
			periods = append(periods, fmt.Sprintf("%d:{pt(dup[%s] low=%s fz=%s late=%s stg=%s) ptc(%s%s%s%s) ca(%s,%s) st[%s]}", per, strings.Join(ds, ","), low,
				verifPlB01(t.Freezer.Frozen), late, x.y.valueID(t.Staging), verifPlB01(pcn.SawOneVote), verifPlB01(pcn.Froze), verifPlB01(pcn.SawSoftThreshold),
				verifPlB01(pcn.SawCertThreshold), verifPlB01(ca.Bottom), x.y.valueID(ca.Proposal), strings.Join(steps, " ")))
		}
		rounds = append(rounds, fmt.Sprintf("%d:{st(rel[%s] pin=%s asm[%s]) fr(%s %d %s %s bp=%s) per[%s]}", r, strings.Join(rel, ","), x.y.valueID(st.Pinned),
			strings.Join(asm, ","), verifPlB01(c.VoteTrackerRound.Ok), kind, frs, cs, x.y.valueID(fb.Proposal), strings.Join(periods, " ")))
	}
	return "P{" + x.playerStr(p) + "} T{" + strings.Join(rounds, " ") + "}"
}

func (x *verifPlExec) proto(bad uint64) ConsensusVersionView {
	v := ConsensusVersionView{Version: x.cv}
	if bad == 3 {
		v.Err = makeSerErrStr("verif: no consensus version")
	}
	return v
}

func verifPlErr(bad uint64) *serializableError {
	if bad == 1 {
		return makeSerErrStr("verif: verification failed")
	}
	if bad == 2 {
		return makeSerErrStr("verif: cancelled")
	}
	return nil
}

func (x *verifPlExec) payloadEvent(verified bool, bad uint64, v uint64, own bool) messageEvent {
	pp := x.y.payload(v)
	x.y.value(v)
	msg := message{Tag: protocol.ProposalPayloadTag, UnauthenticatedProposal: pp.u()}
	if !own {
		msg.messageHandle = "verif-handle"
	}
	e := messageEvent{T: payloadPresent, Input: msg, Proto: x.proto(bad)}
	if verified {
		e.T = payloadVerified
		e.Input.Proposal = pp
		e.Err = verifPlErr(bad)
		e.Cancelled = bad == 2
	}
	return e
}

func verifPlParseVotes(s string) (out [][2]uint64) {
	if s == "-" {
		return
	}
	for _, t := range strings.Split(s, ",") {
		f := strings.Split(t, ":")
		out = append(out, [2]uint64{vh.U(f[0]), vh.U(f[1])})
	}
	return
}

func verifPlParseEqs(s string) (out [][4]uint64) {
	if s == "-" {
		return
	}
	for _, t := range strings.Split(s, ",") {
		f := strings.Split(t, ":")
		out = append(out, [4]uint64{vh.U(f[0]), vh.U(f[1]), vh.U(f[2]), vh.U(f[3])})
	}
	return
}

func (x *verifPlExec) record(r, p, s, sender, value, weight uint64) {
	k := fmt.Sprintf("%d.%d.%d.%d.%d", r, p, s, sender, value)
	if x.delivered == nil {
		x.delivered = map[string]uint64{}
	}
	x.delivered[k] = weight
	if x.deliveredW == nil {
		x.deliveredW = map[string]map[uint64]bool{}
		x.offRound = map[string]bool{}
	}
	if x.deliveredW[k] == nil {
		x.deliveredW[k] = map[uint64]bool{}
	}
	x.deliveredW[k][weight] = true
}

// event of an op line (nil: not an event op)
func (x *verifPlExec) event(f []string) event {
	switch f[0] {
	case "v":
		verified, bad := f[1] == "1", vh.U(f[2])
		r, p, s, sender, w, val := vh.U(f[3]), vh.U(f[4]), vh.U(f[5]), vh.U(f[6]), vh.U(f[7]), vh.U(f[8])
		v := x.y.vote(sender, w, val, round(r), period(p), step(s))
		msg := message{messageHandle: "verif-handle", Tag: protocol.AgreementVoteTag, UnauthenticatedVote: v.u()}
		e := messageEvent{T: votePresent, Input: msg, Proto: x.proto(bad)}
		if verified {
			e.T = voteVerified
			e.Input.Vote = v
			e.Err = verifPlErr(bad)
			e.Cancelled = bad == 2
			if bad == 0 {
				x.record(r, p, s, sender, val, w)
			}
		}
		return e
	case "pv":
		verified, bad := f[1] == "1", vh.U(f[2])
		sender, r, p, val, rank, idx := vh.U(f[3]), vh.U(f[4]), vh.U(f[5]), vh.U(f[6]), vh.U(f[7]), vh.U(f[8])
		v := x.y.pvote(sender, val, rank, round(r), period(p))
		msg := message{messageHandle: "verif-handle", Tag: protocol.AgreementVoteTag, UnauthenticatedVote: v.u()}
		e := messageEvent{T: votePresent, Input: msg, Proto: x.proto(0)}
		if verified {
			e.T = voteVerified
			e.Input.Vote = v
			e.Err = verifPlErr(bad)
			e.Cancelled = bad == 2
			e.TaskIndex = idx
		} else if f[9] != "-" {
			tv := vh.U(strings.Split(f[9], ":")[0])
			tail := x.payloadEvent(false, 0, tv, false)
			e.Tail = &tail
		}
		return e
	case "pl":
		return x.payloadEvent(f[1] == "1", vh.U(f[2]), vh.U(f[3]), f[5] == "1")
	case "b":
		verified, bad := f[1] == "1", vh.U(f[2])
		r, p, s, val := vh.U(f[3]), vh.U(f[4]), vh.U(f[5]), vh.U(f[6])
		ub := unauthenticatedBundle{Round: round(r), Period: period(p), Step: step(s), Proposal: x.y.value(val)}
		var b bundle
		for _, sw := range verifPlParseVotes(f[7]) {
			v := x.y.vote(sw[0], sw[1], val, round(r), period(p), step(s))
			ub.Votes = append(ub.Votes, voteAuthenticator{Sender: v.R.Sender, Cred: v.Cred.UnauthenticatedCredential, Sig: v.Sig})
			b.Votes = append(b.Votes, v)
			if verified && bad == 0 {
				x.record(r, p, s, sw[0], val, sw[1])
			}
		}
		for _, q := range verifPlParseEqs(f[8]) {
			v0 := x.y.vote(q[0], q[1], q[2], round(r), period(p), step(s))
			v1 := x.y.vote(q[0], q[1], q[3], round(r), period(p), step(s))
			ub.EquivocationVotes = append(ub.EquivocationVotes, equivocationVoteAuthenticator{Sender: v0.R.Sender, Cred: v0.Cred.UnauthenticatedCredential,
				Sigs: [2]crypto.OneTimeSignature{v0.Sig, v1.Sig}, Proposals: [2]proposalValue{v0.R.Proposal, v1.R.Proposal}})
			b.EquivocationVotes = append(b.EquivocationVotes, equivocationVote{Sender: v0.R.Sender, Round: round(r), Period: period(p), Step: step(s), Cred: v0.Cred,
				Proposals: [2]proposalValue{v0.R.Proposal, v1.R.Proposal}, Sigs: [2]crypto.OneTimeSignature{v0.Sig, v1.Sig}})
			if verified && bad == 0 {
				x.record(r, p, s, q[0], q[2], q[1])
				x.record(r, p, s, q[0], q[3], q[1])
			}
		}
		msg := message{messageHandle: "verif-handle", Tag: protocol.VoteBundleTag, UnauthenticatedBundle: ub}
		e := messageEvent{T: bundlePresent, Input: msg, Proto: x.proto(bad)}
		if verified {
			b.U = ub
			e.T = bundleVerified
			e.Input.Bundle = b
			e.Err = verifPlErr(bad)
			e.Cancelled = bad == 2
		}
		return e
	case "t":
		return timeoutEvent{T: timeout, RandomEntropy: vh.U(f[1]), Proto: x.proto(0)}
	case "ft":
		return timeoutEvent{T: fastTimeout, RandomEntropy: vh.U(f[1]), Proto: x.proto(0)}
	case "ri":
		return roundInterruptionEvent{Round: round(vh.U(f[1])), Proto: x.proto(0)}
	case "ck":
		var err *serializableError
		if f[4] == "1" {
			err = makeSerErrStr("verif: persist failed")
		}
		return checkpointEvent{Round: round(vh.U(f[1])), Period: period(vh.U(f[2])), Step: step(vh.U(f[3])), Err: err}
	}
	return nil
}

func (x *verifPlExec) runOne(m **verifPlMachine, e event) (res string, acts []action) {
	if *m == nil {
		return "DEAD", nil
	}
	defer func() {
		if r := recover(); r != nil {
			res = verifPlPanic(r)
			if os.Getenv("VERIF_PLAYER_DEBUG") != "" {
				fmt.Fprintf(os.Stderr, "PANIC %v\n%s\n", r, debug.Stack())
			}
			acts = nil
			*m = nil
		}
	}()
	p, as := (*m).router.submitTop(x.tr, (*m).plyr, e)
	(*m).plyr = p
	return x.actsStr(as) + " | " + x.playerStr(p), as
}

func verifPlTaskIndex(as []action) (uint64, bool) {
	for _, a := range as {
		if c, ok := a.(cryptoAction); ok && c.T == verifyVote {
			return c.TaskIndex, true
		}
	}
	return 0, false
}

// Structural monitor on a REAL bundle the router emits (Bundle.verify / Certificate.Authenticate semantics, signatures aside):
// not a propose-step bundle, pairwise distinct senders over votes and equivocation pairs, every vote one that was delivered as
// verified for (round, period, step, value) with the weight its credential carries, every equivocation pair two delivered votes of
// one sender for different values, Σ weight of the DISTINCT senders reaches the step's threshold, size bounds.
func (x *verifPlExec) bundleCheck(c unauthenticatedBundle) string {
	if c.Step == propose {
		return "BAD:propose-step"
	}
	seen := map[basics.Address]bool{}
	var weight uint64
	val := x.y.valueID(c.Proposal)
	key := func(sender basics.Address, v string) string {
		return fmt.Sprintf("%d.%d.%d.%s.%s", c.Round, c.Period, c.Step, verifPlAddrID(sender), v)
	}
	for _, v := range c.Votes {
		if seen[v.Sender] {
			return "BAD:dup-sender"
		}
		seen[v.Sender] = true
		w, err := strconv.ParseUint(verifPlCredWeight(v.Sender, v.Cred), 10, 64)
		if err != nil || !x.deliveredW[key(v.Sender, val)][w] {
			return "BAD:vote-not-delivered"
		}
		weight += w
	}
	for _, v := range c.EquivocationVotes {
		if seen[v.Sender] {
			return "BAD:dup-sender"
		}
		seen[v.Sender] = true
		if v.Proposals[0] == v.Proposals[1] {
			return "BAD:eq-same"
		}
		w, err := strconv.ParseUint(verifPlCredWeight(v.Sender, v.Cred), 10, 64)
		if err != nil || !x.deliveredW[key(v.Sender, x.y.valueID(v.Proposals[0]))][w] || len(x.deliveredW[key(v.Sender, x.y.valueID(v.Proposals[1]))]) == 0 {
			return "BAD:eqvote-not-delivered"
		}
		weight += w
	}
	if !c.Step.reachesQuorum(config.Consensus[x.cv], weight) {
		return "BAD:weight"
	}
	thr := int(c.Step.threshold(config.Consensus[x.cv]))
	if len(c.Votes) > thr || len(c.EquivocationVotes) > thr || len(c.Votes)+len(c.EquivocationVotes) > thr {
		return "BAD:size"
	}
	return "ok"
}

// C03 monitor on the REAL ensure action: the structural conditions of Certificate.Authenticate
func (x *verifPlExec) c03(a ensureAction) string {
	c := a.Certificate
	if c.Step != cert {
		return "BAD:step"
	}
	blk := a.Payload.Block
	// ensure_cert_valid's hypothesis RunOK: a payloadVerified is a block of the player's round (proposal.validate checks
	// entry.Round() == current; the router itself does not).  The generator also delivers validated payloads of other rounds
	// (replays, shifted copies, next-round pipelining); for those the round equality is outside the claim, the rest is checked.
	if x.offRound[x.y.valueID(a.Payload.value())] {
		if c.Proposal.BlockDigest != blk.Digest() {
			return "BAD:digest"
		}
	} else {
		if c.claimsToAuthenticate(blk) != nil {
			return "BAD:claimsToAuthenticate"
		}
		if c.Round != blk.Round() || c.Proposal.BlockDigest != blk.Digest() {
			return "BAD:round-digest"
		}
	}
	if c.Proposal != a.Payload.value() {
		return "BAD:value"
	}
	return x.bundleCheck(unauthenticatedBundle(c))
}

func (x *verifPlExec) exec(op string) string {
	f := strings.Fields(op)
	if len(f) == 0 {
		return "bad-op"
	}
	switch f[0] {
	case "reset":
		x.q = verifPlParams{vh.U(f[1]), vh.U(f[2]), vh.U(f[3]), vh.U(f[4]), vh.U(f[5]), vh.U(f[6]), f[7] == "1"}
		x.cv = verifPlProto(x.q)
		r, p, s := round(vh.U(f[15])), period(vh.U(f[16])), step(vh.U(f[17]))
		pl := player{Round: r, Period: p, Step: s, Deadline: Deadline{Duration: FilterTimeout(p, x.cv), Type: TimeoutFilter},
			lowestCredentialArrivals: makeCredentialArrivalHistory(dynamicFilterCredentialArrivalHistory)}
		rr := makeRootRouter(pl)
		x.live = &verifPlMachine{router: &rr, plyr: pl}
		x.shadow = nil
		x.last = nil
		x.delivered = map[string]uint64{}
		x.deliveredW = map[string]map[uint64]bool{}
		x.offRound = map[string]bool{}
		return "ok"
	case "dump":
		if x.live == nil {
			return "DEAD"
		}
		return x.dumpStr(x.live.plyr, x.live.router, false)
	case "persist":
		if x.live == nil {
			return "DEAD"
		}
		return vh.Catch(func() string {
			reflect := f[1] == "reflect"
			clock := timers.MakeMonotonicClock[TimeoutType](time.Date(2015, 1, 2, 5, 6, 7, 8, time.UTC))
			acts := x.last
			if len(f) > 2 && f[2] == "noact" {
				acts = nil
			}
			raw := encode(clock, *x.live.router, x.live.plyr, acts, reflect)
			t0 := timers.MakeMonotonicClock[TimeoutType](time.Date(2000, 0, 0, 0, 0, 0, 0, time.UTC))
			clock2, rr2, p2, a2, err := decode(raw, t0, makeServiceLogger(logging.Base()), reflect)
			if err != nil {
				return "PERSIST-DIFF decode error " + err.Error()
			}
			x.nPersist++
			liveView := "A[" + x.actsStr(acts) + "] " + x.dumpStr(x.live.plyr, x.live.router, true)
			decoded := "A[" + x.actsStr(a2) + "] " + x.dumpStr(p2, &rr2, true)
			x.shadow = &verifPlMachine{router: &rr2, plyr: p2}
			x.idxMap = map[uint64]uint64{}
			if clock2 == nil || string(clock2.Encode()) != string(clock.Encode()) {
				return "PERSIST-DIFF clock " + decoded
			}
			if liveView != decoded {
				return "PERSIST-DIFF live=" + liveView + " decoded=" + decoded
			}
			return decoded
		})
	}
	e := x.event(f)
	if e == nil {
		return "bad-op"
	}
	if f[0] == "pl" && f[1] == "1" && f[2] != "1" && f[2] != "2" && x.live != nil && uint64(x.live.plyr.Round) != vh.U(f[4]) {
		if x.offRound == nil {
			x.offRound = map[string]bool{}
		}
		x.offRound[f[3]] = true
	}
	out, as := x.runOne(&x.live, e)
	x.last = as
	out2 := "-"
	if x.shadow != nil {
		// the shadow gets its own event object; a verified proposal-vote carries the TaskIndex the SHADOW handed out
		f2 := append([]string{}, f...)
		if f[0] == "pv" && f[1] == "1" {
			if j, ok := x.idxMap[vh.U(f[8])]; ok {
				f2[8] = strconv.FormatUint(j, 10)
			}
		}
		var as2 []action
		out2, as2 = x.runOne(&x.shadow, x.event(f2))
		if f[0] == "pv" && f[1] == "0" {
			i1, ok1 := verifPlTaskIndex(as)
			i2, ok2 := verifPlTaskIndex(as2)
			if ok1 && ok2 {
				x.idxMap[i1] = i2
			}
		}
	}
	res := out + " || " + out2
	for _, a := range as {
		if ea, ok := a.(ensureAction); ok {
			x.nEnsure++
			res += " ## c03=" + x.c03(ea)
		}
	}
	// every other bundle the player emits (relayed / re-broadcast bundles, the certificate of a stageDigest): printed only when bad
	for _, a := range as {
		var b *unauthenticatedBundle
		switch t := a.(type) {
		case networkAction:
			if (t.T == relay || t.T == broadcast) && t.Tag == protocol.VoteBundleTag {
				b = &t.UnauthenticatedBundle
			}
		case stageDigestAction:
			ub := unauthenticatedBundle(t.Certificate)
			b = &ub
		}
		if b != nil {
			x.nBundle++
			if v := x.bundleCheck(*b); v != "ok" {
				res += " ## bundle=" + v
			}
		}
	}
	return res
}

// ------------------------------------------------------------------------------------------------ generator

type verifPlGen struct {
	rng    *vh.Rng
	x      *verifPlExec
	out    *vh.Out
	n      int      // event ops emitted
	w      []uint64 // w[i] = weight of sender i+1
	q      verifPlParams
	total  uint64
	hist   []string            // event lines of the current case
	nextK  map[uint64]uint64   // round -> next k
	props  map[[2]uint64][]uint64 // (round, period) -> proposed values, lowest credential first
	known  map[uint64][]uint64 // round -> values used
	nextCr int
	qval   map[[3]uint64]uint64 // (round, period, step) -> value the "network" votes for
}

func (g *verifPlGen) emit(line string) {
	res := g.x.exec(line)
	g.out.Emit(line, res)
	f := strings.Fields(line)
	switch f[0] {
	case "reset", "dump", "persist":
	default:
		g.n++
		g.hist = append(g.hist, line)
	}
}

func (g *verifPlGen) alive() bool { return g.x.live != nil }

func (g *verifPlGen) thr(s uint64) uint64 {
	switch s {
	case 1:
		return g.q.softT
	case 2:
		return g.q.certT
	case 253:
		return g.q.lateT
	case 254:
		return g.q.redoT
	case 255:
		return g.q.downT
	}
	return g.q.nextT
}

func (g *verifPlGen) newValue(r, op uint64) uint64 {
	k := g.nextK[r]%9 + 1
	g.nextK[r]++
	v := op*1000 + (r%100)*10 + k
	g.known[r] = append(g.known[r], v)
	return v
}

func (g *verifPlGen) someValue(r, p uint64) uint64 {
	rg := g.rng
	if ps := g.props[[2]uint64{r, p}]; len(ps) > 0 && rg.Chance(75) {
		if rg.Chance(80) {
			return ps[0]
		}
		return ps[rg.Intn(len(ps))]
	}
	if ks := g.known[r]; len(ks) > 0 && rg.Chance(70) {
		return ks[rg.Intn(len(ks))]
	}
	return g.newValue(r, p)
}

func (g *verifPlGen) perm() []int {
	n := len(g.w)
	p := make([]int, n)
	for i := range p {
		p[i] = i
	}
	for i := n - 1; i > 0; i-- {
		j := g.rng.Intn(i + 1)
		p[i], p[j] = p[j], p[i]
	}
	return p
}

func (g *verifPlGen) bad() uint64 {
	if g.rng.Chance(97) {
		return 0
	}
	return uint64(1 + g.rng.Intn(3))
}

// votes of step s for value v crossing the threshold (or stopping `short` senders early)
func (g *verifPlGen) quorumLines(r, p, s, v uint64, short int) []string {
	var lines []string
	if q, ok := g.qval[[3]uint64{r, p, s}]; ok && q != v && g.rng.Chance(85) {
		v = q // an honest majority does not form two quorums in one step
	} else if !ok {
		g.qval[[3]uint64{r, p, s}] = v
	}
	var sum uint64
	order := g.perm()
	extra := g.rng.Intn(2)
	for idx, i := range order {
		if short > 0 && idx >= len(order)-short {
			break
		}
		if sum >= g.thr(s) {
			if extra == 0 {
				break
			}
			extra--
		}
		sender := uint64(i + 1)
		if g.rng.Chance(12) {
			lines = append(lines, fmt.Sprintf("v 0 0 %d %d %d %d %d %d", r, p, s, sender, g.w[i], v))
		}
		lines = append(lines, fmt.Sprintf("v 1 %d %d %d %d %d %d %d", g.bad(), r, p, s, sender, g.w[i], v))
		if g.rng.Chance(3) { // equivocation pair
			lines = append(lines, fmt.Sprintf("v 1 0 %d %d %d %d %d %d", r, p, s, sender, g.w[i], g.someOther(r, p, v)))
		}
		sum += g.w[i]
	}
	return lines
}

// the value a quorum of step s forms around: mostly one per (r, p, s), as with an honest majority
func (g *verifPlGen) quorumValue(r, p, s uint64, pick func() uint64) uint64 {
	k := [3]uint64{r, p, s}
	if v, ok := g.qval[k]; ok && g.rng.Chance(90) {
		return v
	}
	v := pick()
	if _, ok := g.qval[k]; !ok {
		g.qval[k] = v
	}
	return v
}

func (g *verifPlGen) someOther(r, p, v uint64) uint64 {
	for t := 0; t < 4; t++ {
		o := g.someValue(r, p)
		if o != v {
			return o
		}
	}
	return g.newValue(r, p)
}

// a structurally valid bundle for (r, p, s, v)
func (g *verifPlGen) bundleLine(verified bool, r, p, s, v uint64) string {
	var vs, es []string
	var sum uint64
	for _, i := range g.perm() {
		if sum >= g.thr(s) {
			break
		}
		sender := uint64(i + 1)
		if g.rng.Chance(10) && len(vs) > 0 {
			o := g.someOther(r, p, v)
			p0, p1 := v, o
			if g.rng.Bool() {
				p0, p1 = o, v
			}
			es = append(es, fmt.Sprintf("%d:%d:%d:%d", sender, g.w[i], p0, p1))
		} else {
			vs = append(vs, fmt.Sprintf("%d:%d", sender, g.w[i]))
		}
		sum += g.w[i]
	}
	j := func(l []string) string {
		if len(l) == 0 {
			return "-"
		}
		return strings.Join(l, ",")
	}
	ver := 0
	if verified {
		ver = 1
	}
	return fmt.Sprintf("b %d %d %d %d %d %d %s %s", ver, g.bad(), r, p, s, v, j(vs), j(es))
}

func (g *verifPlGen) proposalLines(r, p uint64) []string {
	rg := g.rng
	n := 1 + rg.Intn(3)
	var lines []string
	type pr struct{ v, c, s uint64 }
	var prs []pr
	for i := 0; i < n; i++ {
		var v uint64
		if p > 0 && rg.Chance(35) && len(g.known[r]) > 0 {
			v = g.known[r][rg.Intn(len(g.known[r]))] // reproposal
		} else {
			v = g.newValue(r, p)
		}
		c := uint64(rg.Intn(40))
		sender := uint64(1 + rg.Intn(len(g.w)+2))
		prs = append(prs, pr{v, c, sender})
	}
	sort.Slice(prs, func(i, j int) bool { return prs[i].c < prs[j].c })
	key := [2]uint64{r, p}
	for _, q := range prs {
		g.props[key] = append(g.props[key], q.v)
	}
	for _, i := range verifPlPermN(rg, len(prs)) {
		q := prs[i]
		pay := fmt.Sprintf("%d:%d", q.v, (q.v%1000)/10)
		mode := rg.Intn(10)
		switch {
		case mode < 3: // compound message: vote present with the payload as tail, then vote verified
			lines = append(lines, fmt.Sprintf("pv 0 0 %d %d %d %d %d 0 %s", q.s, r, p, q.v, q.c, pay))
			lines = append(lines, fmt.Sprintf("pv 1 %d %d %d %d %d %d @IDX -", g.bad(), q.s, r, p, q.v, q.c))
			if rg.Chance(80) {
				lines = append(lines, fmt.Sprintf("pl 1 %d %d %d 0", g.bad(), q.v, (q.v%1000)/10))
			}
		case mode < 8:
			if rg.Chance(30) {
				lines = append(lines, fmt.Sprintf("pv 0 0 %d %d %d %d %d 0 -", q.s, r, p, q.v, q.c))
			}
			lines = append(lines, fmt.Sprintf("pv 1 %d %d %d %d %d %d 0 -", g.bad(), q.s, r, p, q.v, q.c))
			own := 0
			if rg.Chance(15) {
				own = 1
			}
			if rg.Chance(70) {
				lines = append(lines, fmt.Sprintf("pl 0 0 %d %d %d", q.v, (q.v%1000)/10, own))
			}
			if rg.Chance(75) {
				lines = append(lines, fmt.Sprintf("pl 1 %d %d %d %d", g.bad(), q.v, (q.v%1000)/10, own))
			}
		default: // vote only; the payload may come late
			lines = append(lines, fmt.Sprintf("pv 1 0 %d %d %d %d %d 0 -", q.s, r, p, q.v, q.c))
		}
	}
	return lines
}

// perturb a batch: drop, duplicate, swap neighbours, shifted (stale / future) copies
func (g *verifPlGen) perturb(lines []string) []string {
	rg := g.rng
	var out []string
	for _, l := range lines {
		if rg.Chance(3) {
			continue
		}
		out = append(out, l)
		if rg.Chance(6) {
			out = append(out, l)
		}
		if rg.Chance(4) {
			if s := g.shift(l); s != "" {
				out = append(out, s)
			}
		}
	}
	for i := 0; i+1 < len(out); i++ {
		if rg.Chance(10) {
			out[i], out[i+1] = out[i+1], out[i]
		}
	}
	return out
}

// the same vote for a neighbouring period / round
func (g *verifPlGen) shift(l string) string {
	f := strings.Fields(l)
	d := []int64{-2, -1, 1, 2}[g.rng.Intn(4)]
	adj := func(s string) string {
		v := int64(vh.U(s)) + d
		if v < 0 {
			v = 0
		}
		return strconv.FormatInt(v, 10)
	}
	switch f[0] {
	case "v":
		if g.rng.Bool() {
			f[4] = adj(f[4])
		} else {
			f[3] = adj(f[3])
		}
	case "pv":
		if strings.Contains(l, "@IDX") {
			return ""
		}
		if g.rng.Bool() {
			f[5] = adj(f[5])
		} else {
			f[4] = adj(f[4])
		}
	case "b":
		if g.rng.Bool() {
			f[4] = adj(f[4])
		} else {
			f[3] = adj(f[3])
		}
	default:
		return ""
	}
	return strings.Join(f, " ")
}

func (g *verifPlGen) run(lines []string) {
	for _, l := range lines {
		if !g.alive() {
			return
		}
		if strings.Contains(l, "@IDX") {
			// TaskIndex of the most recent push
			l = strings.Replace(l, "@IDX", strconv.FormatUint(g.x.live.plyr.Pending.PendingNext, 10), 1)
		}
		g.emit(l)
	}
}

// one generated case
func (g *verifPlGen) oneCase(malformed bool, maxEvents int) {
	rg := g.rng
	n := 4 + rg.Intn(4)
	g.w = make([]uint64, n)
	g.total = 0
	scale := []uint64{1, 1, 10, 1000}[rg.Intn(4)]
	for i := range g.w {
		g.w[i] = uint64(1+rg.Intn(4)) * scale
		if rg.Chance(4) {
			g.w[i] *= 5 // a whale
		}
		g.total += g.w[i]
	}
	frac := func(pct uint64) uint64 {
		t := (g.total*pct + 99) / 100
		if t == 0 {
			t = 1
		}
		return t
	}
	g.q = verifPlParams{frac(68), frac(70), frac(72), frac(30), frac(66), frac(74), rg.Chance(70)}
	if rg.Chance(10) {
		g.q.softT, g.q.certT, g.q.nextT = frac(51), frac(51), frac(51)
	}
	g.hist = nil
	g.nextK = map[uint64]uint64{}
	g.props = map[[2]uint64][]uint64{}
	g.known = map[uint64][]uint64{}
	g.qval = map[[3]uint64]uint64{}
	r0 := uint64(1 + rg.Intn(30))
	p0 := uint64(0)
	if rg.Chance(15) {
		p0 = uint64(rg.Intn(6))
	}
	g.emit(verifPlResetLine(g.q, r0, p0, 1))
	start := g.n
	for g.alive() && g.n-start < maxEvents {
		pl := g.x.live.plyr
		R, P, S := uint64(pl.Round), uint64(pl.Period), uint64(pl.Step)
		if R > 88 {
			break
		}
		var lines []string
		if malformed {
			lines = g.malformedBatch(R, P, S)
		} else {
			lines = g.perturb(g.batch(R, P, S))
		}
		g.run(lines)
		if !g.alive() {
			break
		}
		if rg.Chance(10) {
			g.persist()
		}
		if rg.Chance(5) {
			g.emit("dump")
		}
	}
	if g.alive() {
		g.emit("dump")
		g.persist()
	}
}

// Directed stream: quorums that only form through EQUIVOCATORS.  In one (round, period, step) a set D of senders votes the value w,
// 1–3 further senders vote twice (for w first and then another value, or for two other values) so that they count for every value
// through EquivocatorsCount, and the step's threshold T is set so that D alone does not reach it:
//   Σw(D) + Σw(e_1..e_{k-1}) < T ≤ Σw(D) + Σw(e_1..e_k)      (e_1.. in genBundle's packing order: heavier first, then larger address)
// The bundle the tracker generates at the crossing must then contain every equivocation pair and none of the equivocators among the
// plain votes.  `canonical`: cert step, two equivocators, X = e_1 votes w first, arrival order X→w, D→w, X→u, Y→a, Y→b (the crossing is
// Y's second vote); otherwise step, number of equivocators, first values and the order of arrival are random.
func (g *verifPlGen) equivCase(canonical bool) {
	rg := g.rng
	n := 5 + rg.Intn(3)
	k := 2
	if !canonical {
		k = 1 + rg.Intn(3)
	}
	scale := []uint64{1, 1, 10, 1000}[rg.Intn(4)]
	g.w = make([]uint64, n)
	g.total = 0
	for i := range g.w {
		g.w[i] = uint64(1+rg.Intn(4)) * scale
		g.total += g.w[i]
	}
	// equivocators: k random senders, in genBundle's packing order
	eq := g.perm()[:k]
	sort.Slice(eq, func(i, j int) bool {
		if g.w[eq[i]] != g.w[eq[j]] {
			return g.w[eq[i]] > g.w[eq[j]]
		}
		return eq[i] > eq[j]
	})
	isEq := map[int]bool{}
	var sumEq, sumEqButLast uint64
	for i, e := range eq {
		isEq[e] = true
		sumEq += g.w[e]
		if i < k-1 {
			sumEqButLast += g.w[e]
		}
	}
	var D []int
	var sumD uint64
	for i := range g.w {
		if !isEq[i] && (len(D) < 2 || rg.Chance(85)) {
			D = append(D, i)
			sumD += g.w[i]
		}
	}
	last := g.w[eq[k-1]]
	T := sumD + sumEqButLast + 1 + uint64(rg.Intn(int(last)))
	if T <= sumEq { // would trip "too many equivocators": leave the shape to the random stream
		T = sumEq + 1
	}
	frac := func(pct uint64) uint64 { return (g.total*pct + 99) / 100 }
	g.q = verifPlParams{frac(68), frac(70), frac(72), frac(30), frac(66), frac(74), rg.Chance(70)}
	s := uint64(2)
	if !canonical {
		s = []uint64{2, 2, 2, 1, 3, 4}[rg.Intn(6)]
	}
	switch s {
	case 1:
		g.q.softT = T
	case 2:
		g.q.certT = T
	default:
		g.q.nextT = T
	}
	g.hist = nil
	g.nextK = map[uint64]uint64{}
	g.props = map[[2]uint64][]uint64{}
	g.known = map[uint64][]uint64{}
	g.qval = map[[3]uint64]uint64{}
	g.emit(verifPlResetLine(g.q, uint64(1+rg.Intn(30)), 0, 1))
	for it := 0; it < 3 && g.alive(); it++ {
		pl := g.x.live.plyr
		R, P := uint64(pl.Round), uint64(pl.Period)
		if R > 88 {
			break
		}
		w := g.newValue(R, P)
		var lines []string
		lines = append(lines, fmt.Sprintf("pv 1 0 %d %d %d %d %d 0 -", n+1, R, P, w, rg.Intn(5)))
		lines = append(lines, g.payloadVerified(w))
		vote := func(i int, v uint64) string {
			return fmt.Sprintf("v 1 0 %d %d %d %d %d %d", R, P, s, i+1, g.w[i], v)
		}
		other := func(not ...uint64) uint64 {
			for {
				v := g.newValue(R, P)
				ok := v != w
				for _, x := range not {
					ok = ok && v != x
				}
				if ok {
					return v
				}
			}
		}
		var votes [][]string // per sender, in its own order
		for j, e := range eq {
			var first, second uint64
			if (canonical && j == 0) || (!canonical && rg.Chance(60)) {
				first = w
				second = other(w)
			} else {
				first = other()
				second = other(first)
				if !canonical && rg.Chance(30) {
					second = w
				}
			}
			if first == second {
				second = other(first)
			}
			votes = append(votes, []string{vote(e, first), vote(e, second)})
		}
		if canonical {
			lines = append(lines, votes[0][0])
			for _, d := range D {
				lines = append(lines, vote(d, w))
			}
			lines = append(lines, votes[0][1], votes[1][0], votes[1][1])
		} else {
			for _, d := range D {
				votes = append(votes, []string{vote(d, w)})
			}
			for len(votes) > 0 { // random interleaving that keeps every sender's own order
				i := rg.Intn(len(votes))
				lines = append(lines, votes[i][0])
				if votes[i] = votes[i][1:]; len(votes[i]) == 0 {
					votes = append(votes[:i], votes[i+1:]...)
				}
			}
		}
		g.run(lines)
		if !g.alive() {
			break
		}
		g.emit("dump")
		if rg.Chance(50) {
			g.persist()
		}
		// leave the (round, period) if the schedule itself did not: a timeout, then an ordinary cert quorum for w
		if pl2 := g.x.live.plyr; uint64(pl2.Round) == R && uint64(pl2.Period) == P {
			g.run([]string{fmt.Sprintf("t %d", rg.U64())})
			if s != 2 && g.alive() {
				g.run(g.quorumLines(R, P, 2, w, 0))
			}
		}
	}
	if g.alive() {
		g.emit("dump")
		g.persist()
	}
}

// persist the current state with the action list of the last event — except when that list holds a stageDigest action:
// decode's zeroAction has no case for it (it panics "bad action type: stageDigest"); the service never writes such a list
// (it persists only lists containing an attest, and no handle call emits both), so the op then passes no actions.
func (g *verifPlGen) persist() {
	mode := "act"
	for _, a := range g.x.last {
		if a.t() == stageDigest {
			mode = "noact"
		}
	}
	g.emit("persist " + []string{"msgp", "reflect"}[g.rng.Intn(2)] + " " + mode)
}

func (g *verifPlGen) payloadVerified(v uint64) string {
	return fmt.Sprintf("pl 1 0 %d %d 0", v, (v%1000)/10)
}

// a protocol-shaped batch for the current (round, period, step)
func (g *verifPlGen) batch(R, P, S uint64) []string {
	rg := g.rng
	var lines []string
	lowest := func() uint64 {
		if ps := g.props[[2]uint64{R, P}]; len(ps) > 0 {
			return ps[0]
		}
		return 0
	}
	switch c := rg.Intn(100); {
	case c < 16: // a whole synchronous period: proposals, filter timeout, soft and cert quorum
		lines = append(lines, g.proposalLines(R, P)...)
		lines = append(lines, fmt.Sprintf("t %d", rg.U64()))
		v := lowest()
		if v == 0 {
			v = g.someValue(R, P)
		}
		v = g.quorumValue(R, P, 1, func() uint64 { return v })
		g.quorumValue(R, P, 2, func() uint64 { return v })
		lines = append(lines, g.quorumLines(R, P, 1, v, 0)...)
		if rg.Chance(25) {
			lines = append(lines, g.payloadVerified(v))
		}
		lines = append(lines, g.quorumLines(R, P, 2, v, 0)...)
		if rg.Chance(60) {
			lines = append(lines, g.payloadVerified(v)) // late payload
		}
	case c < 26:
		lines = g.proposalLines(R, P)
	case c < 38:
		lines = []string{fmt.Sprintf("t %d", rg.U64())}
		if rg.Chance(30) {
			lines = append(lines, fmt.Sprintf("t %d", rg.U64()))
		}
	case c < 47:
		lines = g.quorumLines(R, P, 1, g.quorumValue(R, P, 1, func() uint64 { return g.someValue(R, P) }), rg.Intn(3)*rg.Intn(2))
	case c < 56:
		lines = g.quorumLines(R, P, 2, g.quorumValue(R, P, 2, func() uint64 { return g.quorumValue(R, P, 1, func() uint64 { return g.someValue(R, P) }) }), rg.Intn(3)*rg.Intn(2))
	case c < 64: // recovery: next votes for bottom or a value, in this or the previous period
		s := uint64(3 + rg.Intn(3))
		if S > 3 && rg.Chance(60) {
			s = S
		}
		v := g.quorumValue(R, P, s, func() uint64 {
			if rg.Chance(45) {
				return g.someValue(R, P)
			}
			return 0
		})
		lines = g.quorumLines(R, P, s, v, rg.Intn(2)*rg.Intn(2))
	case c < 73: // bundles: soft / cert / next, current, future (fast-forward) or stale period
		s := []uint64{1, 2, 3, 3, 4, 2}[rg.Intn(6)]
		p := P
		switch rg.Intn(8) {
		case 0, 1:
			p = P + 1
		case 2:
			p = P + 2 + uint64(rg.Intn(3))
		case 3:
			if P > 0 {
				p = P - 1
			}
		case 4:
			if P > 2 && rg.Chance(50) {
				p = uint64(rg.Intn(int(P)))
			}
		}
		v := g.someValue(R, p)
		if s >= 3 && rg.Chance(45) {
			v = 0
		}
		if rg.Chance(20) {
			lines = append(lines, g.bundleLine(false, R, p, s, v))
		}
		lines = append(lines, g.bundleLine(true, R, p, s, v))
		if rg.Chance(40) && v != 0 {
			lines = append(lines, g.payloadVerified(v))
		}
	case c < 78: // fast recovery
		lines = []string{fmt.Sprintf("ft %d", rg.U64())}
		if rg.Chance(50) {
			lines = append(lines, fmt.Sprintf("ft %d", rg.U64()))
		}
		if rg.Chance(50) {
			s := uint64(253 + rg.Intn(3))
			v := uint64(0)
			if s != 255 {
				v = g.someValue(R, P)
			}
			lines = append(lines, g.quorumLines(R, P, s, v, rg.Intn(2))...)
		}
	case c < 86: // pipelining: proposals, votes, payloads of the next round
		lines = g.proposalLines(R+1, 0)
		if rg.Chance(60) {
			lines = append(lines, g.quorumLines(R+1, 0, uint64(1+rg.Intn(2)), g.someValue(R+1, 0), 0)...)
		}
		if rg.Chance(30) {
			lines = append(lines, g.quorumLines(R+1, 0, 2, g.someValue(R+1, 0), 0)...)
		}
	case c < 91: // payload of a known value arrives (late, duplicate, or never announced)
		v := g.someValue(R, P)
		if rg.Chance(30) {
			lines = append(lines, fmt.Sprintf("pl 0 0 %d %d %d", v, (v%1000)/10, rg.Intn(2)))
		}
		lines = append(lines, fmt.Sprintf("pl 1 %d %d %d %d", g.bad(), v, (v%1000)/10, rg.Intn(5)/4))
	case c < 96: // replay of earlier traffic (duplicates, stale)
		for i := 0; i < 1+rg.Intn(4) && len(g.hist) > 0; i++ {
			l := g.hist[rg.Intn(len(g.hist))]
			if !strings.HasPrefix(l, "t ") && !strings.HasPrefix(l, "ft ") && !strings.HasPrefix(l, "ri ") {
				lines = append(lines, l)
			}
		}
	case c < 98:
		lines = []string{fmt.Sprintf("ck %d %d %d %d", R, P, S, rg.Intn(4)/3)}
	default:
		lines = []string{fmt.Sprintf("ri %d", R+1+uint64(rg.Intn(3)*rg.Intn(2)))}
	}
	return lines
}

// malformed stream: arbitrary coordinates, bottoms where verification forbids them, failed / cancelled verification
func (g *verifPlGen) malformedBatch(R, P, S uint64) []string {
	rg := g.rng
	near := func(x uint64, span int) uint64 {
		v := int64(x) + int64(rg.Intn(2*span+1)) - int64(span)
		if v < 0 {
			v = 0
		}
		return uint64(v)
	}
	r := near(R, 2)
	if r > 90 {
		r = 90
	}
	p := near(P, 3)
	steps := []uint64{1, 1, 2, 2, 3, 4, 5, 9, 252, 253, 254, 255}
	s := steps[rg.Intn(len(steps))]
	sender := uint64(1 + rg.Intn(len(g.w)+1))
	w := uint64(rg.Intn(5))
	if int(sender) <= len(g.w) && rg.Chance(70) {
		w = g.w[sender-1]
	}
	v := uint64(0)
	if rg.Chance(80) {
		v = g.someValue(r, p)
	}
	bad := uint64(rg.Intn(4))
	if rg.Chance(50) {
		bad = 0
	}
	switch rg.Intn(12) {
	case 0, 1, 2:
		return []string{fmt.Sprintf("v %d %d %d %d %d %d %d %d", rg.Intn(2), bad, r, p, s, sender, w, v)}
	case 3, 4:
		if v == 0 {
			v = g.newValue(r, p)
		}
		return []string{fmt.Sprintf("pv %d %d %d %d %d %d %d %d -", rg.Intn(2), bad%3, sender, r, p, v, rg.Intn(50), rg.Intn(3))}
	case 5:
		if v == 0 {
			v = g.newValue(r, p)
		}
		return []string{fmt.Sprintf("pl %d %d %d %d %d", rg.Intn(2), bad%3, v, (v%1000)/10, rg.Intn(2))}
	case 6:
		l := g.bundleLine(rg.Chance(80), r, p, s, v)
		if rg.Chance(15) {
			f := strings.Fields(l)
			f[7], f[8] = "-", "-"
			l = strings.Join(f, " ")
		}
		return []string{l}
	case 7:
		return []string{fmt.Sprintf("t %d", rg.Biased64())}
	case 8:
		return []string{fmt.Sprintf("ft %d", rg.Biased64())}
	case 9:
		return []string{fmt.Sprintf("ck %d %d %d %d", r, p, s, rg.Intn(2))}
	case 10:
		if rg.Chance(20) {
			// round interruptions only move forward (the demux emits one when ledger.NextRound() > player.Round); a backwards one
			// would resurrect rounds that encode deliberately does not persist
			return []string{fmt.Sprintf("ri %d", R+1+uint64(rg.Intn(4)))}
		}
		return g.quorumLines(r, p, s, v, 0)
	default:
		return g.perturb(g.batch(R, P, S))
	}
}

// permN on the shared rng
type verifPlPermer interface{ Intn(int) int }

func verifPlPermN(r verifPlPermer, n int) []int {
	p := make([]int, n)
	for i := range p {
		p[i] = i
	}
	for i := n - 1; i > 0; i-- {
		j := r.Intn(i + 1)
		p[i], p[j] = p[j], p[i]
	}
	return p
}

// ------------------------------------------------------------------------------------------------ test

func TestVerifPlayer(t *testing.T) {
	logging.Base().SetOutput(io.Discard)
	logging.Base().SetLevel(logging.Error)
	y := verifPlSyms()
	x := &verifPlExec{y: y, tr: &tracer{log: serviceLogger{logging.Base()}}, delivered: map[string]uint64{}}
	out := vh.Open("player")
	defer out.Close()
	if ops, ok := vh.ReplayOps(); ok {
		for _, op := range ops {
			out.Emit(op, x.exec(op))
		}
		return
	}
	g := &verifPlGen{rng: vh.NewRng(vh.Seed()), x: x, out: out}
	budget := vh.Budget(12000, 400000)
	malformedBudget := budget / 6
	// directed: quorums through equivocators (two canonical cases, then variants), again after every 10th generated case
	for i := 0; i < 6; i++ {
		g.equivCase(i < 2)
	}
	for c := 1; g.n < budget-malformedBudget; c++ {
		g.oneCase(false, 60+g.rng.Intn(140))
		if c%10 == 0 {
			g.equivCase(false)
		}
	}
	for g.n < budget {
		g.oneCase(true, 40+g.rng.Intn(80))
	}
	t.Logf("player: %d events, %d ensure actions, %d other bundles checked, %d persists", g.n, x.nEnsure, x.nBundle, x.nPersist)
}
