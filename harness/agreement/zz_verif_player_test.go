//go:build verif

package agreement

import (
	"fmt"
	"testing"

	"github.com/algorand/go-algorand/protocol"
)

func TestVerifPlayerProbe(t *testing.T) {
	const r = round(10)
	plyr, pM, helper := setupP(t, r, 5, soft)
	_ = plyr
	pV := helper.MakeRandomProposalValue()
	b := helper.MakeVerifiedBundle(t, r, 2, cert, *pV)
	e := messageEvent{T: bundleVerified, Input: message{Bundle: b, UnauthenticatedBundle: b.U}, Proto: ConsensusVersionView{Version: protocol.ConsensusCurrentVersion}}
	err, panicErr := pM.transition(e)
	fmt.Printf("PROBE err=%v panic=%v\n", err, panicErr)
	fmt.Printf("PROBE player=%+v\n", plyr.Round)
}
