//go:build verif

package agreement

// NetDrive hooks (C01, reused by C02/C05).  /verif/checks/netdrive.py generates, on every run, an overlay copy of the
// CURRENT agreement/service.go in which Service.mainLoop calls these two function variables:
//
//   - verifNDAtStart    once, after the restore/decode/initialise block and before the first `output <- a`;
//   - verifNDAfterHandle after every `status, a = router.submitTop(s.tracer, status, e)`.
//
// Both run on the mainLoop goroutine of the Service.  They are nil unless a NetDrive harness test installs them, and the
// unpatched service.go never refers to them, so every other build of the package is unaffected.
var verifNDAtStart func(s *Service, router *rootRouter, status *player, a []action, clock interface{})
var verifNDAfterHandle func(s *Service, router *rootRouter, status *player, e externalEvent, a []action)
