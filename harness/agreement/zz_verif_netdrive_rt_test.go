//go:build verif

package agreement

// NetDrive, part 6 (investigation, not part of the C01 check): is the interleaving `down ⊥` … then `cert v` in one period
// reachable with the REAL clock (timers.Monotonic) and the REAL demux.next select?  One real Service (node 1) runs with a
// Monotonic clock under a consensus version with short timeouts (filter 150 ms, deadline 400 ms, FastRecoveryLambda
// 500 ms); nodes 0, 2, 3 are played by the harness (real keys).  Trial: node 1 soft-votes, is shut down at Step = cert,
// stays down for longer than 2·λf, its inbox is filled with a soft quorum (bundle + single votes), it is restarted on its
// crash DB (Monotonic.Decode restores the period's zero time, so the down time counts).  At restart the step deadline,
// the fast deadline and the inbox are all ready: the outcome depends on Go's random select.
//
//	VERIF_ND_RT_TRIALS (default 40)      output: one line per trial + a summary on stdout, `netdrive.rt` in $VERIF_OUT

import (
	"fmt"
	"io"
	"os"
	"path/filepath"
	"strings"
	"testing"
	"time"

	"github.com/algorand/go-algorand/config"
	"github.com/algorand/go-algorand/data/basics"
	"github.com/algorand/go-algorand/logging"
	"github.com/algorand/go-algorand/protocol"
	"github.com/algorand/go-algorand/util/timers"
)

func ndProtoRT(W, T uint64) protocol.ConsensusVersion {
	base := ndProto(W, T)
	name := protocol.ConsensusVersion(string(base) + "-rt")
	ndProtoMu.Lock()
	defer ndProtoMu.Unlock()
	if _, ok := config.Consensus[name]; ok {
		return name
	}
	p := config.Consensus[base]
	p.AgreementFilterTimeoutPeriod0 = 150 * time.Millisecond
	p.AgreementFilterTimeout = 150 * time.Millisecond
	p.AgreementDeadlineTimeoutPeriod0 = 400 * time.Millisecond
	p.FastRecoveryLambda = 500 * time.Millisecond
	config.Consensus[name] = p
	return name
}

func (r *ndRun) startRealClock(n *ndNode) error {
	r.qmu.Lock()
	n.gen++
	n.monitor = nil
	n.alive = false // never part of the quiescence condition
	r.qmu.Unlock()
	endpoint := r.net.testingNetworkEndpoint(nodeID(n.id))
	endpoint.monitor = nil
	params := Parameters{
		Logger: r.logger, Ledger: n.ledger, Network: endpoint, KeyManager: n.keys, BlockValidator: testBlockValidator{},
		BlockFactory: testBlockFactory{Owner: n.id}, Clock: timers.MakeMonotonicClock[TimeoutType](time.Now()), Accessor: n.acc,
		Local: config.Local{}, RandomSource: &ndRand{s: uint64(time.Now().UnixNano())},
	}
	svc, err := MakeService(params)
	if err != nil {
		return err
	}
	r.mu.Lock()
	n.svc = svc
	n.started = false
	r.mu.Unlock()
	ndReg.Store(svc, n)
	svc.Start()
	return nil
}

func (r *ndRun) logHas(from int, pred func(string) bool) (int, bool) {
	r.mu.Lock()
	defer r.mu.Unlock()
	for i := from; i < len(r.clog); i++ {
		if pred(r.clog[i]) {
			return i, true
		}
	}
	return len(r.clog), false
}

func (r *ndRun) push(dst int, tag protocol.Tag, data []byte) {
	r.net.mu.Lock()
	r.net.nextHandle++
	h := new(int)
	*h = r.net.nextHandle
	r.net.source[h] = nodeID(0)
	var ch chan Message
	switch tag {
	case protocol.AgreementVoteTag:
		ch = r.net.voteMessages[dst]
	case protocol.ProposalPayloadTag:
		ch = r.net.payloadMessages[dst]
	default:
		ch = r.net.bundleMessages[dst]
	}
	r.net.mu.Unlock()
	ch <- Message{MessageHandle: h, Data: data}
}

func TestVerifNetDriveRealClock(t *testing.T) {
	if os.Getenv("VERIF_ND_RT_TRIALS") == "" {
		t.Skip("VERIF_ND_RT_TRIALS not set")
	}
	t.Chdir(t.TempDir())
	logging.Base().SetOutput(io.Discard)
	ndInstallHooks()
	defer func() { verifNDAtStart, verifNDAfterHandle = nil, nil }()
	trials := ndEnvInt("VERIF_ND_RT_TRIALS", 40)
	bundleOnly := os.Getenv("VERIF_ND_RT_BUNDLE") == "1"
	var lines []string
	fastFirst, full, certOnly, neither := 0, 0, 0, 0
	for trial := 0; trial < trials; trial++ {
		cfg := ndConfig{id: trial, seed: uint64(trial), n: 4, w: []uint64{1, 1, 1, 1}, honest: []bool{false, true, false, false}, T: 3, rounds: 1, profile: "realclock"}
		ndProto(4, 3)
		version := ndProtoRT(4, 3)
		r := ndNewRun(t, cfg, nil)
		for _, n := range r.nodes {
			n.ledger.inner.consensusVersion = func(basics.Round) (protocol.ConsensusVersion, error) { return version, nil }
		}
		A := r.nodes[1]
		rnd := r.start
		// proposal of node 2 in A's inbox before A starts; A freezes the better of it and its own block
		r.byzProposal("bp", r.nodes[2], rnd, 0, 1, ndMask("0100", 4))
		r.mu.Lock()
		for _, m := range r.pending {
			if m.dst == 1 && m.tag == protocol.ProposalPayloadTag {
				go r.push(1, m.tag, m.data)
			}
		}
		r.mu.Unlock()
		t0 := time.Now()
		if err := r.startRealClock(A); err != nil {
			t.Fatal(err)
		}
		// wait for the soft vote to be persisted (checkpoint), then stop A while its Step is cert
		var softVal string
		ok := false
		for time.Since(t0) < 380*time.Millisecond {
			if i, has := r.logHas(0, func(l string) bool { return strings.HasPrefix(l, "ATTEST node=1") && strings.Contains(l, "step=1 ") }); has {
				if _, cp := r.logHas(i, func(l string) bool { return strings.HasPrefix(l, "CHECKPOINT node=1") }); cp {
					r.mu.Lock()
					softVal = kvOf(r.clog[i], "val")
					r.mu.Unlock()
					ok = true
					break
				}
			}
			time.Sleep(2 * time.Millisecond)
		}
		A.svc.Shutdown()
		ndReg.Delete(A.svc)
		stopAt := time.Since(t0)
		r.mu.Lock()
		lateStop := false
		for _, l := range r.clog {
			if strings.HasPrefix(l, "ATTEST node=1") && !strings.Contains(l, "step=1 ") {
				lateStop = true
			}
		}
		mark := len(r.clog)
		r.mu.Unlock()
		if !ok || lateStop {
			lines = append(lines, fmt.Sprintf("trial %d: setup missed (soft vote persisted=%v, stopped at %v, later attest=%v)", trial, ok, stopAt, lateStop))
			A.acc.Close()
			continue
		}
		// the soft quorum for A's value, signed by nodes 0, 2, 3 with their real keys: one bundle and (optionally) the votes
		for _, b := range []int{0, 2, 3} {
			r.byzVote("bv", r.nodes[b], rnd, 0, soft, softVal, ndMask("0000", 4), false)
		}
		r.byzVote("bb", r.nodes[0], rnd, 0, soft, softVal, ndMask("0100", 4), true)
		r.mu.Lock()
		var inbox []*ndMsg
		for _, m := range r.pending {
			if m.dst == 1 && m.tag == protocol.VoteBundleTag {
				inbox = append(inbox, m)
			}
		}
		if !bundleOnly {
			key := fmt.Sprintf("%d/%d/%d", rnd, 0, soft)
			for _, b := range []int{0, 2, 3} {
				for _, uv := range r.wireVotes[key][b] {
					uv := uv
					inbox = append(inbox, &ndMsg{dst: 1, tag: protocol.AgreementVoteTag, data: protocol.Encode(&uv)})
				}
			}
		}
		r.mu.Unlock()
		r.net.mu.Lock()
		r.net.voteMessages[1] = make(chan Message, 64)
		r.net.payloadMessages[1] = make(chan Message, 64)
		r.net.bundleMessages[1] = make(chan Message, 64)
		r.net.mu.Unlock()
		for _, m := range inbox {
			r.push(1, m.tag, m.data)
		}
		// down for longer than 2·λf measured from the period's zero
		time.Sleep(time.Until(t0.Add(1150 * time.Millisecond)))
		if err := r.startRealClock(A); err != nil {
			t.Fatal(err)
		}
		time.Sleep(350 * time.Millisecond)
		A.svc.Shutdown()
		ndReg.Delete(A.svc)
		A.acc.Close()
		r.mu.Lock()
		var seq []string
		for _, l := range r.clog[mark:] {
			if strings.HasPrefix(l, "ATTEST node=1") {
				seq = append(seq, fmt.Sprintf("step=%s val=%s pstep=%s", kvOf(l, "step"), kvOf(l, "val"), kvOf(l, "pstep")))
			}
		}
		r.mu.Unlock()
		iDown, iCert := -1, -1
		for i, s := range seq {
			if strings.HasPrefix(s, "step=255 ") && strings.HasSuffix(s, "pstep=2") && iDown < 0 {
				iDown = i
			}
			if strings.HasPrefix(s, "step=2 ") && iCert < 0 {
				iCert = i
			}
		}
		switch {
		case iDown >= 0 && iCert > iDown:
			full++
			fastFirst++
		case iDown >= 0:
			fastFirst++
		case iCert >= 0:
			certOnly++
		default:
			neither++
		}
		lines = append(lines, fmt.Sprintf("trial %d: after restart: %s", trial, strings.Join(seq, " ; ")))
	}
	sum := fmt.Sprintf("REALCLOCK trials=%d fast-timeout-handled-at-Step-cert(down-bot)=%d of-which-followed-by-cert-vote=%d cert-vote-only=%d neither=%d",
		trials, fastFirst, full, certOnly, neither)
	lines = append(lines, sum)
	fmt.Println(sum)
	dir := os.Getenv("VERIF_OUT")
	if dir == "" {
		dir = os.TempDir()
	}
	os.WriteFile(filepath.Join(dir, "netdrive.rt"), []byte(strings.Join(lines, "\n")+"\n"), 0o644)
}

func kvOf(line, key string) string {
	for _, f := range strings.Fields(line) {
		if k, v, ok := strings.Cut(f, "="); ok && k == key {
			return v
		}
	}
	return ""
}
