//go:build verif

package agreement

// NetDrive, part 5: directed scenarios.  A scenario is a Go function that picks decisions by looking at the pending
// messages (by sender / step / value) and executes them through the same executor as generated schedules, so its
// netdrive.sched output is an ordinary replayable schedule (these are kept in /verif/corpus/C01/).
//
//	VERIF_ND_SCENARIO=doublecommit   crash-restart-crash of one honest node + one Byzantine of four  → two commits? (C01/C02 finding)
//	VERIF_ND_SCENARIO=fastvote       fast-recovery timeout handled while Step ≤ cert, then a soft threshold → cert vote after `down ⊥`
//	VERIF_ND_SCENARIO=latepayload    a next-quorum of nodes sees the soft threshold but gets the payload only after its deadline (step next)
//	VERIF_ND_SCENARIO=recrash-<P>-<soft|next>-<k>-<0|1>   k honest nodes crash and restore in recovery period P after that vote,
//	                                 the period's votes are lost; 1 = a fourth node saw the period-0 cert quorum and committed
//	VERIF_ND_SCENARIO=trimdrop       proposalStore.trim drops the payload of the value a node cert-voted (7 nodes, 2 Byzantine)
//	VERIF_ND_SCENARIO=fastcommit     … extended to a ⊥ next-quorum and a cert quorum sharing honest nodes → two commits?

import (
	"fmt"
	"os"
	"sort"
	"strconv"
	"strings"
	"testing"
	"time"

	"github.com/algorand/go-algorand/data/basics"
	"github.com/algorand/go-algorand/logging"
	"github.com/algorand/go-algorand/protocol"
	"io"
)

type ndInfo struct {
	kind   byte // V P B
	sender int  // vote sender / proposer (index), -1 unknown
	round  basics.Round
	period period
	step   step
	val    string
}

func (r *ndRun) info(m *ndMsg) ndInfo {
	in := ndInfo{sender: -1}
	switch m.tag {
	case protocol.AgreementVoteTag:
		in.kind = 'V'
		var uv unauthenticatedVote
		if protocol.Decode(m.data, &uv) == nil {
			if k, ok := r.world.byAddr[uv.R.Sender]; ok {
				in.sender = k
			}
			in.round, in.period, in.step, in.val = uv.R.Round, uv.R.Period, uv.R.Step, ndTok(uv.R.Proposal)
		}
	case protocol.ProposalPayloadTag:
		in.kind = 'P'
		var tp transmittedPayload
		if protocol.Decode(m.data, &tp) == nil {
			if k, ok := r.world.byAddr[tp.unauthenticatedProposal.OriginalProposer]; ok {
				in.sender = k
			}
			in.round, in.period, in.val = tp.unauthenticatedProposal.Round(), tp.PriorVote.R.Period, ndTok(tp.unauthenticatedProposal.value())
		}
	case protocol.VoteBundleTag:
		in.kind = 'B'
		var ub unauthenticatedBundle
		if protocol.Decode(m.data, &ub) == nil {
			in.round, in.period, in.step, in.val = ub.Round, ub.Period, ub.Step, ndTok(ub.Proposal)
		}
	}
	return in
}

type ndScen struct {
	r   *ndRun
	out *ndFiles
}

// do records and executes one decision and waits for quiescence.
func (s *ndScen) do(format string, a ...interface{}) {
	line := fmt.Sprintf(format, a...)
	fmt.Fprintln(s.out.sched, line)
	s.out.sched.Flush()
	s.r.stats.steps++
	s.r.exec(line)
	if !s.r.waitQuiet(15 * time.Second) {
		s.r.note("QUIET-TIMEOUT after `%s`", line)
	}
}

// deliver delivers every pending message that satisfies pred (one pass over what is pending now); returns the count.
func (s *ndScen) deliver(pred func(m *ndMsg, in ndInfo) bool) int {
	s.r.mu.Lock()
	cand := []*ndMsg{}
	for _, m := range s.r.pending {
		if !m.consumed {
			cand = append(cand, m)
		}
	}
	s.r.mu.Unlock()
	k := 0
	for _, m := range cand {
		if m.consumed {
			continue
		}
		if pred(m, s.r.info(m)) {
			s.do("d %s", m.key)
			k++
		}
	}
	return k
}

func (s *ndScen) mask(ids ...int) string {
	b := make([]byte, s.r.cfg.n)
	for i := range b {
		b[i] = '0'
	}
	for _, i := range ids {
		b[i] = '1'
	}
	return string(b)
}

// credOrder: honest node ids by the credential of their period-0 proposal-vote (lowest first = the one every node prefers).
func (s *ndScen) credOrder(rnd basics.Round) []int {
	type pc struct {
		id int
		v  vote
	}
	var l []pc
	ref := s.r.refLedger()
	scratch := ndGetWorld()
	for _, n := range s.r.nodes {
		if !n.honest {
			continue
		}
		pv := proposalValue{OriginalProposer: s.r.world.parts[n.id].Parent}
		pv.BlockDigest[0] = 1
		uv, err := ndSignWith(scratch, n.id, rnd, 0, propose, pv, ref)
		if err != nil {
			panic(err)
		}
		v, err := uv.verify(ref)
		if err != nil {
			panic(err)
		}
		l = append(l, pc{n.id, v})
	}
	sort.Slice(l, func(i, j int) bool { return l[i].v.Cred.Less(l[j].v.Cred) })
	ids := []int{}
	for _, x := range l {
		ids = append(ids, x.id)
	}
	return ids
}

func (s *ndScen) valueOf(proposer int, rnd basics.Round) string {
	s.r.mu.Lock()
	defer s.r.mu.Unlock()
	for _, pv := range s.r.values[rnd] {
		if k, ok := s.r.world.byAddr[pv.OriginalProposer]; ok && k == proposer && pv.OriginalPeriod == 0 {
			return ndTok(pv)
		}
	}
	return ""
}

func (s *ndScen) start() {
	fmt.Fprintln(s.out.sched, s.r.cfg.header())
	for _, n := range s.r.nodes {
		if n.honest {
			if err := s.r.startNode(n); err != nil {
				s.r.fatal = err.Error()
				panic(err)
			}
		}
	}
	s.r.waitQuiet(20 * time.Second)
}

func (s *ndScen) finish() {
	fmt.Fprintln(s.out.sched, "end")
	for _, n := range s.r.nodes {
		if n.honest {
			s.r.stopNode(n)
			n.acc.Close()
		}
	}
}

// scenDoubleCommit: see the header.  D = node 0 is Byzantine; B < A < C by proposal credential.
func scenDoubleCommit(s *ndScen) {
	s.start()
	rnd := s.r.start
	ord := s.credOrder(rnd)
	B, A, C, D := ord[0], ord[1], ord[2], 0
	vB, vA := s.valueOf(B, rnd), s.valueOf(A, rnd)
	s.r.note("SCENARIO doublecommit A=%d B=%d C=%d D=%d v=%s v'=%s", A, B, C, D, vB, vA)
	isProp := func(from, to int) func(*ndMsg, ndInfo) bool {
		return func(m *ndMsg, in ndInfo) bool {
			return in.kind == 'P' && in.sender == from && m.src == from && m.dst == to
		}
	}
	isVote := func(sender, to int, st step, val string) func(*ndMsg, ndInfo) bool {
		return func(m *ndMsg, in ndInfo) bool {
			return in.kind == 'V' && in.sender == sender && m.dst == to && in.step == st && in.val == val && in.period == 0
		}
	}
	// first life of A: A and B soft- and cert-vote v (B's block); B commits v.
	s.deliver(isProp(B, A))
	s.do("t %d", A)
	s.do("t %d", B)
	s.deliver(isVote(A, B, soft, vB))
	s.deliver(isVote(B, A, soft, vB))
	s.do("bv %d %d 0 %d %s %s", D, rnd, soft, vB, s.mask(A, B))
	s.deliver(isVote(D, A, soft, vB))
	s.deliver(isVote(D, B, soft, vB))
	s.deliver(isVote(A, B, cert, vB))
	s.do("bv %d %d 0 %d %s %s", D, rnd, cert, vB, s.mask(B))
	s.deliver(isVote(D, B, cert, vB))
	// A crashes twice
	s.do("crash %d", A)
	s.do("crash %d", A)
	// second life of A: A and C soft- and cert-vote v' (A's own block); C commits v'.
	s.do("t %d", A)
	s.deliver(isProp(A, C))
	s.do("t %d", C)
	s.deliver(isVote(A, C, soft, vA))
	s.deliver(isVote(C, A, soft, vA))
	s.do("bv %d %d 0 %d %s %s", D, rnd, soft, vA, s.mask(A, C))
	s.deliver(isVote(D, A, soft, vA))
	s.deliver(isVote(D, C, soft, vA))
	s.deliver(isVote(A, C, cert, vA))
	s.do("bv %d %d 0 %d %s %s", D, rnd, cert, vA, s.mask(C))
	s.deliver(isVote(D, C, cert, vA))
	s.finish()
}

func TestVerifNetDriveScenario(t *testing.T) {
	name := os.Getenv("VERIF_ND_SCENARIO")
	if name == "" {
		t.Skip("VERIF_ND_SCENARIO not set")
	}
	t.Chdir(t.TempDir())
	logging.Base().SetOutput(io.Discard)
	ndInstallHooks()
	defer func() { verifNDAtStart, verifNDAfterHandle = nil, nil }()
	out := ndOpenFiles()
	defer out.close()
	cfg := ndConfig{id: 0, seed: vh0Seed(), n: 4, w: []uint64{1, 1, 1, 1}, honest: []bool{false, true, true, true}, T: 3, rounds: 1, maxSteps: 100000, profile: "scenario-" + name}
	if name == "fastcommit0" {
		cfg.honest = []bool{true, true, true, true}
	}
	if name == "latepayload" || strings.HasPrefix(name, "recrash-") {
		cfg.honest = []bool{true, true, true, true}
	}
	if name == "stalecert" {
		cfg.honest = []bool{false, true, false, false} // nodes 0, 2, 3 are played by the harness with their real keys
	}
	if name == "trimdrop" {
		cfg = ndTrimDropConfig(t, cfg)
	}
	W, _ := cfg.W()
	ndProto(W, cfg.T)
	r := ndNewRun(t, cfg, nil)
	if err := r.checkWeights(); err != nil {
		t.Fatal(err)
	}
	s := &ndScen{r: r, out: out}
	func() {
		defer func() {
			if x := recover(); x != nil {
				r.note("HARNESS-PANIC %v", x)
			}
		}()
		switch name {
		case "doublecommit":
			scenDoubleCommit(s)
		case "fastvote":
			scenFastVote(s, false)
		case "fastcommit", "fastcommit0":
			scenFastVote(s, true)
		case "stalecert":
			scenStaleCert(s)
		case "latepayload":
			scenLatePayload(s)
		case "trimdrop":
			scenTrimDrop(s)
		default:
			var per, k, x int
			var after string
			if f := strings.Split(name, "-"); len(f) == 5 && f[0] == "recrash" {
				per, _ = strconv.Atoi(f[1])
				after = f[2]
				k, _ = strconv.Atoi(f[3])
				x, _ = strconv.Atoi(f[4])
			}
			if per < 1 || per > 3 || (after != "soft" && after != "next") || k < 1 || k > 3 {
				t.Fatalf("unknown scenario %s", name)
			}
			scenRecrash(s, period(per), after, k, x == 1)
		}
	}()
	r.write(out)
	if r.fatal != "" {
		t.Fatal(r.fatal)
	}
}

func vh0Seed() uint64 { return uint64(ndEnvInt("VERIF_SEED", 0)) }

// scenFastVote: the open question of the abstract-model author.  issueFastVote ignores p.Step; if a fast-recovery timeout
// is HANDLED while Step ≤ cert (only possible when the node was stalled longer than FastRecoveryLambda inside the
// period, so that the step deadline and the fast deadline are both ready and demux.next's select picks the fast one),
// the node casts `down ⊥` and can still cert-vote when the soft threshold arrives.
// commit = true extends this to two stalled honest nodes A, B and one Byzantine D: a ⊥ next-quorum {A,B,D} and a cert
// quorum {A,B,C} in period 0, then a commit of another value in period 1.
func scenFastVote(s *ndScen, commit bool) {
	s.start()
	rnd := s.r.start
	ord := s.credOrder(rnd)
	B, A, C, D := ord[0], ord[1], ord[2], 0
	v := s.valueOf(B, rnd)
	s.r.note("SCENARIO fastvote commit=%v A=%d B=%d C=%d D=%d v=%s", commit, A, B, C, D, v)
	all := func(m *ndMsg, in ndInfo) bool { return in.kind == 'P' }
	s.deliver(all) // every honest node holds every honest proposal: all freeze v (B's block)
	for _, x := range []int{A, B, C} {
		s.do("t %d", x) // filter timeout: soft vote v, Step := cert
	}
	stalled := []int{A}
	if commit {
		stalled = []int{A, B}
	}
	for _, x := range stalled {
		s.do("f %d", x) // first fast timeout of the period: only arms the timer
		s.do("f %d", x) // second: issueFastVote with Step = cert, nothing staged, period 0 → `down ⊥`
	}
	softTo := func(to int) func(*ndMsg, ndInfo) bool {
		return func(m *ndMsg, in ndInfo) bool {
			return in.kind == 'V' && m.dst == to && in.step == soft && in.val == v && in.period == 0
		}
	}
	for _, x := range []int{A, B, C} {
		s.deliver(softTo(x)) // soft threshold for v: committable, Step ≤ cert → cert vote v (after `down ⊥` for the stalled nodes)
	}
	if !commit {
		s.finish()
		return
	}
	certTo := func(from, to int) func(*ndMsg, ndInfo) bool {
		return func(m *ndMsg, in ndInfo) bool {
			return in.kind == 'V' && in.sender == from && m.dst == to && in.step == cert && in.val == v && in.period == 0
		}
	}
	s.deliver(certTo(A, C))
	s.deliver(certTo(B, C)) // C: cert quorum {A,B,C} → commits v
	downTo := func(from, to int) func(*ndMsg, ndInfo) bool {
		return func(m *ndMsg, in ndInfo) bool {
			return in.kind == 'V' && in.sender == from && m.dst == to && in.step == down && in.period == 0
		}
	}
	s.do("bv %d %d 0 %d bot %s", D, rnd, down, s.mask(A, B))
	s.deliver(downTo(D, A))
	s.deliver(downTo(D, B))
	s.deliver(downTo(A, B))
	s.deliver(downTo(B, A)) // A, B: ⊥ next-quorum {A,B,D} of period 0 → period 1, fresh proposals
	p1 := func(m *ndMsg, in ndInfo) bool {
		return in.kind == 'P' && in.period == 1 && (m.dst == A || m.dst == B) && (m.src == A || m.src == B)
	}
	s.deliver(p1)
	s.do("t %d", A)
	s.do("t %d", B) // soft votes of period 1 for the better of the two new blocks
	var v1 string
	s.r.mu.Lock()
	for i := len(s.r.trace) - 1; i >= 0; i-- {
		if ev := s.r.trace[i]; ev.kind == 'v' && ev.p == 1 && ev.step == soft && ev.node == A {
			v1 = ev.val
		}
	}
	s.r.mu.Unlock()
	if v1 == "" {
		s.r.note("SCENARIO fastcommit: no period-1 soft vote of A")
		s.finish()
		return
	}
	soft1 := func(m *ndMsg, in ndInfo) bool {
		return in.kind == 'V' && in.period == 1 && in.step == soft && (m.dst == A || m.dst == B) && in.val == v1
	}
	s.do("bv %d %d 1 %d %s %s", D, rnd, soft, v1, s.mask(A, B))
	s.deliver(soft1)
	cert1 := func(m *ndMsg, in ndInfo) bool {
		return in.kind == 'V' && in.period == 1 && in.step == cert && m.dst == A && in.val == v1
	}
	s.do("bv %d %d 1 %d %s %s", D, rnd, cert, v1, s.mask(A))
	s.deliver(cert1) // A: cert quorum {A,B,D} of period 1 → commits v1 ≠ v
	s.finish()
}

// scenStaleCert: a node that is two or more periods past period p (p ≥ 2) receives a VALID cert bundle of period p of its
// current round.  bundleFresh lets every cert bundle of the round through, roundRouter.update garbage-collects the
// period-p router it has just created (p+1 < player.Period, p > 1), and roundRouter.dispatch calls a method on the nil
// child: nil dereference inside Service.mainLoop (found by the thorough tier, schedule 899 of seed 0).
func scenStaleCert(s *ndScen) {
	s.start()
	rnd := s.r.start
	X := 1
	for p := 0; p < 4; p++ { // ⊥ next-quorums of periods 0..3 move X into period 4
		for _, b := range []int{0, 2, 3} {
			s.do("bv %d %d %d %d bot %s", b, rnd, p, next, s.mask(X))
		}
		s.deliver(func(m *ndMsg, in ndInfo) bool {
			return in.kind == 'V' && m.dst == X && in.step == next && in.period == period(p)
		})
	}
	v := s.valueOf(X, rnd)
	for _, b := range []int{0, 2, 3} {
		s.do("bv %d %d 2 %d %s %s", b, rnd, cert, v, s.mask())
	}
	s.do("bb 0 %d 2 %d %s %s", rnd, cert, v, s.mask(X))
	s.r.note("SCENARIO stalecert: delivering a valid cert bundle of period 2 to node %d in period %d", X, s.r.nodes[X].period)
	s.out.flush()
	s.deliver(func(m *ndMsg, in ndInfo) bool { return in.kind == 'B' && m.dst == X })
	s.finish()
}

// scenLatePayload: all four nodes honest, nothing lost, only delay.  L proposes the leading block v; s0, s1, s2 get L's
// stand-alone proposal-vote and all soft votes (so they see the soft threshold for v) but not the payload; their deadline
// expires, they next-vote ⊥; then the payload arrives while they are in step next.  The cert vote is allowed only while
// Step ≤ cert: on the real code they stay silent, the ⊥ next-quorum moves everybody to period 1 and one block is
// committed.  If a node cert-votes v here (seeded change C01-1: `p.Step <= next`), s0 collects {L, s1, s2, s0} and commits v
// while the others commit the period-1 block.
func scenLatePayload(s *ndScen) {
	s.start()
	rnd := s.r.start
	ord := s.credOrder(rnd)
	L, S := ord[0], ord[1:]
	inS := func(id int) bool { return id == S[0] || id == S[1] || id == S[2] }
	s.r.note("SCENARIO latepayload L=%d S=%v", L, S)
	s.deliver(func(m *ndMsg, in ndInfo) bool { return in.kind == 'V' && in.step == propose && in.period == 0 })
	for _, x := range ord {
		s.do("t %d", x) // filter timeout: everybody soft-votes v
	}
	s.deliver(func(m *ndMsg, in ndInfo) bool { return in.kind == 'V' && in.step == soft && in.period == 0 }) // L cert-votes v
	for _, x := range S {
		s.do("t %d", x) // deadline: staged but no payload → next-vote ⊥, Step = next
	}
	s.deliver(func(m *ndMsg, in ndInfo) bool {
		return in.kind == 'P' && in.sender == L && m.src == L && inS(m.dst) && in.period == 0
	})
	s.deliver(func(m *ndMsg, in ndInfo) bool {
		return in.kind == 'V' && in.step == cert && in.period == 0 && m.dst == S[0]
	})
	s.deliver(func(m *ndMsg, in ndInfo) bool {
		return in.kind == 'V' && in.step == next && in.period == 0 && in.val == "bot"
	})
	for i := 0; i < 2; i++ { // period 1: proposals (votes and payloads), to everybody
		s.deliver(func(m *ndMsg, in ndInfo) bool {
			return (in.kind == 'P' || (in.kind == 'V' && in.step == propose)) && in.period == 1
		})
	}
	for _, x := range ord {
		s.r.mu.Lock()
		here := s.r.nodes[x].round == rnd && s.r.nodes[x].period == 1
		s.r.mu.Unlock()
		if here {
			s.do("t %d", x)
		}
	}
	s.deliver(func(m *ndMsg, in ndInfo) bool { return in.kind == 'V' && in.step == soft && in.period == 1 })
	s.deliver(func(m *ndMsg, in ndInfo) bool { return in.kind == 'V' && in.step == cert && in.period == 1 })
	s.finish()
}

// ---------------------------------------------------------------------------------------------- trimdrop

// roles of the trimdrop scenario: indices of Z1, Z2 (Byzantine) and A, B, C, D, E (honest)
var ndTrimRoles [7]int

// ndTrimDropConfig: 7 nodes of weight 1, two Byzantine (F = 2 < W/3, T = 5, HQ holds).  Roles are assigned by the
// proposal credentials (a function of the keys and the round's seed): in period 0 B's credential beats C's, D's and E's
// (so they soft-vote B's block v), in period 1 Z2's beats Z1's, A's, C's and E's (so Z2's proposal-vote replaces Z1's
// re-proposal in A's tracker, and A, C, E soft-vote Z2's block).
func ndTrimDropConfig(t *testing.T, base ndConfig) ndConfig {
	cfg := base
	cfg.n, cfg.T = 7, 5
	cfg.w = []uint64{1, 1, 1, 1, 1, 1, 1}
	cfg.honest = []bool{true, true, true, true, true, true, true}
	ndProto(7, 5)
	tmp := ndNewRun(t, cfg, nil)
	ref := tmp.refLedger()
	scratch := ndGetWorld()
	var cred [2][7]vote
	for per := 0; per < 2; per++ {
		for id := 0; id < 7; id++ {
			pv := proposalValue{OriginalPeriod: period(per), OriginalProposer: scratch.parts[id].Parent}
			pv.BlockDigest[0] = 1
			uv, err := ndSignWith(scratch, id, tmp.start, period(per), propose, pv, ref)
			if err != nil {
				t.Fatal(err)
			}
			v, err := uv.verify(ref)
			if err != nil {
				t.Fatal(err)
			}
			cred[per][id] = v
		}
	}
	for _, n := range tmp.nodes {
		if n.acc.Handle != nil || true {
			n.acc.Close()
		}
	}
	less := func(per, a, b int) bool { return cred[per][a].Cred.Less(cred[per][b].Cred) }
	used := [7]bool{}
	var pick [7]int // Z1 Z2 A B C D E
	var rec func(k int) bool
	rec = func(k int) bool {
		if k == 7 {
			Z1, Z2, A, B, C, D, E := pick[0], pick[1], pick[2], pick[3], pick[4], pick[5], pick[6]
			return less(0, B, C) && less(0, B, D) && less(0, B, E) && less(1, Z2, Z1) && less(1, Z2, A) && less(1, Z2, C) && less(1, Z2, E)
		}
		for id := 0; id < 7; id++ {
			if used[id] {
				continue
			}
			used[id], pick[k] = true, id
			if rec(k + 1) {
				return true
			}
			used[id] = false
		}
		return false
	}
	if !rec(0) {
		t.Fatal("trimdrop: no role assignment satisfies the credential constraints")
	}
	ndTrimRoles = pick
	cfg.honest[pick[0]], cfg.honest[pick[1]] = false, false
	return cfg
}

// scenTrimDrop: proposalStore.handle(softThreshold) returns committableEvent without recording Relevant[period] when
// the payload is already assembled.  A knows v only through Z1's period-1 re-proposal vote (Relevant[1] = v) plus a
// payload relayed without its vote; A cert-votes v in period 0; Z2's period-1 proposal-vote with a lower credential
// replaces Relevant[1], store.trim drops v's assembler, stagedValue is no longer committable, and at its deadline A
// next-votes ⊥ after having cert-voted v.  Cert quorum {A,B,D,Z1,Z2} → B commits v; ⊥ next-quorum {A,C,E,Z1,Z2} →
// period 1 → A, C, E commit Z2's block w.
func scenTrimDrop(s *ndScen) {
	s.start()
	rnd := s.r.start
	Z1, Z2, A, B, C, D, E := ndTrimRoles[0], ndTrimRoles[1], ndTrimRoles[2], ndTrimRoles[3], ndTrimRoles[4], ndTrimRoles[5], ndTrimRoles[6]
	v := s.valueOf(B, rnd)
	s.r.note("SCENARIO trimdrop Z1=%d Z2=%d A=%d B=%d C=%d D=%d E=%d v=%s", Z1, Z2, A, B, C, D, E, v)
	to := func(ids ...int) func(int) bool {
		return func(x int) bool {
			for _, i := range ids {
				if i == x {
					return true
				}
			}
			return false
		}
	}
	// B's stand-alone proposal-vote reaches C, D, E (not A); B's payload reaches D only
	s.deliver(func(m *ndMsg, in ndInfo) bool {
		return in.kind == 'V' && in.step == propose && in.sender == B && m.src == B && to(C, D, E)(m.dst)
	})
	s.deliver(func(m *ndMsg, in ndInfo) bool { return in.kind == 'P' && in.sender == B && m.src == B && m.dst == D })
	// A learns v through Z1's period-1 re-proposal vote and a payload without prior vote
	s.do("bpv %d %d 1 %s %s", Z1, rnd, v, s.mask(A))
	s.deliver(func(m *ndMsg, in ndInfo) bool {
		return m.src == Z1 && m.dst == A && in.kind == 'V' && in.step == propose
	})
	s.do("bpl %d %d 0 %s %s", Z1, rnd, v, s.mask(A))
	s.deliver(func(m *ndMsg, in ndInfo) bool { return m.src == Z1 && m.dst == A && in.kind == 'P' })
	for _, x := range []int{A, B, C, D, E} {
		s.do("t %d", x) // filter: B, C, D, E soft-vote v; A soft-votes its own block
	}
	for _, z := range []int{Z1, Z2} {
		s.do("bv %d %d 0 %d %s %s", z, rnd, soft, v, s.mask(A, B, C, D, E))
	}
	s.deliver(func(m *ndMsg, in ndInfo) bool {
		return in.kind == 'V' && in.step == soft && in.period == 0 && in.val == v
	}) // A, B, D cert-vote v
	for _, z := range []int{Z1, Z2} {
		s.do("bv %d %d 0 %d %s %s", z, rnd, cert, v, s.mask(B))
	}
	s.deliver(func(m *ndMsg, in ndInfo) bool {
		return in.kind == 'V' && in.step == cert && in.period == 0 && m.dst == B
	}) // B commits v
	// Z2's own period-1 proposal (lower credential than Z1's re-proposal): at A it replaces Relevant[1]; trim drops v
	s.do("bp %d %d 1 1 %s", Z2, rnd, s.mask(A, C, E))
	s.deliver(func(m *ndMsg, in ndInfo) bool { return m.src == Z2 && in.kind == 'P' && in.period == 1 })
	for _, x := range []int{A, C, E} {
		s.do("t %d", x) // deadline: C, E have no payload → ⊥; A cert-voted v but lost its payload → ⊥
	}
	for _, z := range []int{Z1, Z2} {
		s.do("bv %d %d 0 %d bot %s", z, rnd, next, s.mask(A, C, E))
	}
	s.deliver(func(m *ndMsg, in ndInfo) bool {
		return in.kind == 'V' && in.step == next && in.period == 0 && in.val == "bot" && to(A, C, E)(m.dst)
	})
	// period 1
	w := ""
	s.r.mu.Lock()
	for _, pv := range s.r.values[rnd] {
		if k, ok := s.r.world.byAddr[pv.OriginalProposer]; ok && k == Z2 && pv.OriginalPeriod == 1 {
			w = ndTok(pv)
		}
	}
	s.r.mu.Unlock()
	for _, x := range []int{A, C, E} {
		s.r.mu.Lock()
		here := s.r.nodes[x].round == rnd && s.r.nodes[x].period == 1
		s.r.mu.Unlock()
		if here {
			s.do("t %d", x) // filter of period 1: soft-vote the best proposal = Z2's w
		}
	}
	if w != "" {
		for _, st := range []step{soft, cert} {
			for _, z := range []int{Z1, Z2} {
				s.do("bv %d %d 1 %d %s %s", z, rnd, st, w, s.mask(A, C, E))
			}
			s.deliver(func(m *ndMsg, in ndInfo) bool {
				return in.kind == 'V' && in.step == st && in.period == 1 && in.val == w && to(A, C, E)(m.dst)
			})
		}
	}
	s.finish()
}

// ---------------------------------------------------------------------------------------------- recrash

// scenRecrash: four honest nodes, no Byzantine one.  Period 0: everybody soft- and cert-votes v; the cert quorum reaches
// X only (withX: X commits v).  R = the other three next-vote v and enter period 1 on the next-threshold for v; in every
// recovery period 1..P their votes of the period are lost, so they move on through next-value quorums.  In period P,
// k of them crash and restore right after their soft vote (after = soft) or their first next vote (after = next), and only
// votes cast after the restore are delivered.  The starting value of period P lives in the period P-1 tracker
// (voteTrackerPeriod.Cached): a restore that loses it makes the nodes next-vote ⊥, a ⊥ next-quorum forms and period P+1
// commits a fresh block (seeded change C01-2: encode() prunes the period routers below player.Period).
func scenRecrash(s *ndScen, P period, after string, k int, withX bool) {
	s.start()
	rnd := s.r.start
	ord := s.credOrder(rnd)
	X, R := ord[3], ord[:3]
	inR := func(id int) bool { return id == R[0] || id == R[1] || id == R[2] }
	s.r.note("SCENARIO recrash P=%d after=%s k=%d withX=%v X=%d R=%v", P, after, k, withX, X, R)
	s.deliver(func(m *ndMsg, in ndInfo) bool { return in.kind == 'P' || (in.kind == 'V' && in.step == propose) })
	for _, x := range ord {
		s.do("t %d", x)
	}
	s.deliver(func(m *ndMsg, in ndInfo) bool { return in.kind == 'V' && in.step == soft && in.period == 0 }) // all cert-vote v
	if withX {
		s.deliver(func(m *ndMsg, in ndInfo) bool {
			return in.kind == 'V' && in.step == cert && in.period == 0 && m.dst == X
		}) // X commits v
	}
	inPeriod := func(x int, q period) bool {
		s.r.mu.Lock()
		defer s.r.mu.Unlock()
		return s.r.nodes[x].round == rnd && s.r.nodes[x].period == q
	}
	for q := period(0); q <= P; q++ {
		voteStep := next
		if q > 0 {
			for _, x := range R {
				if inPeriod(x, q) {
					s.do("t %d", x) // filter: soft vote for the starting value; these votes are lost
				}
			}
			if q == P && after == "soft" {
				for _, x := range R[:k] {
					s.do("crash %d", x)
				}
			}
		}
		for _, x := range R {
			if inPeriod(x, q) {
				s.do("t %d", x) // deadline: first next vote of the period
			}
		}
		if q == P && after == "next" {
			for _, x := range R[:k] {
				s.do("crash %d", x)
			}
			for i := 0; i < 2; i++ { // nap, then the second next vote; the first ones are lost
				for _, x := range R {
					if inPeriod(x, q) {
						s.do("t %d", x)
					}
				}
			}
			voteStep = next + 1
		}
		s.deliver(func(m *ndMsg, in ndInfo) bool {
			return in.kind == 'V' && in.step == voteStep && in.period == q && inR(m.dst) && inR(in.sender)
		})
	}
	// period P+1: whatever it starts with gets committed by R
	Q := P + 1
	for i := 0; i < 2; i++ {
		s.deliver(func(m *ndMsg, in ndInfo) bool {
			return (in.kind == 'P' || (in.kind == 'V' && in.step == propose)) && in.period == Q && inR(m.dst) && inR(m.src)
		})
	}
	for _, x := range R {
		if inPeriod(x, Q) {
			s.do("t %d", x)
		}
	}
	for _, st := range []step{soft, cert} {
		s.deliver(func(m *ndMsg, in ndInfo) bool {
			return in.kind == 'V' && in.step == st && in.period == Q && inR(m.dst) && inR(in.sender)
		})
	}
	s.finish()
}
