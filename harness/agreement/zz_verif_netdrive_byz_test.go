//go:build verif

package agreement

// NetDrive, part 4: the Byzantine minority.  A Byzantine node runs no Service; the harness signs whatever the schedule says
// with the node's REAL participation keys (one-time signature + VRF credential), so every such vote passes the honest
// nodes' real verification and is counted with the node's real weight.

import (
	"fmt"

	"github.com/algorand/go-algorand/crypto"
	"github.com/algorand/go-algorand/data/basics"
	"github.com/algorand/go-algorand/data/bookkeeping"
	"github.com/algorand/go-algorand/protocol"
)

func (r *ndRun) byzSign(b *ndNode, rnd basics.Round, per period, s step, pv proposalValue, l Ledger) (uv unauthenticatedVote, err error) {
	return ndSignWith(r.world, b.id, rnd, per, s, pv, l)
}

// ndSignWith signs with the keys of world w (probes use a scratch world: signing advances the key's sub-key generator).
func ndSignWith(w *ndWorld, id int, rnd basics.Round, per period, s step, pv proposalValue, l Ledger) (uv unauthenticatedVote, err error) {
	defer func() {
		if x := recover(); x != nil {
			err = fmt.Errorf("makeVote panicked: %v", x)
		}
	}()
	part := w.parts[id]
	rv := rawVote{Sender: part.Parent, Round: rnd, Period: per, Step: s, Proposal: pv}
	return makeVote(rv, crypto.OneTimeSigner{OneTimeSignatureSecrets: part.Voting}, part.VRF, l)
}

// byzVote executes `bv` (a single vote to the nodes of mask) and `bb` (a bundle for (rnd, per, s, val)).
func (r *ndRun) byzVote(line string, b *ndNode, rnd basics.Round, per period, s step, valTok string, mask []bool, asBundle bool) {
	l := r.refLedger()
	if rnd == 0 || rnd > l.NextRound() || s == propose {
		r.diverged(line)
		return
	}
	var pv proposalValue
	if valTok != "bot" {
		r.mu.Lock()
		v, ok := r.valTok[valTok]
		r.mu.Unlock()
		if !ok {
			r.diverged(line)
			return
		}
		pv = v
	}
	if (pv == bottom && (s == soft || s == cert || s == late || s == redo)) || (pv != bottom && s == down) {
		r.diverged(line)
		return
	}
	key := fmt.Sprintf("%d/%d/%d", rnd, per, s)
	// b's own vote for the value (created once per value; the abstract `vote` line is emitted when it is created,
	// i.e. before any honest node can have used it)
	own := func() (unauthenticatedVote, bool) {
		r.mu.Lock()
		for _, o := range r.wireVotes[key][b.id] {
			if o.R.Proposal == pv {
				r.mu.Unlock()
				return o, true
			}
		}
		r.mu.Unlock()
		uv, err := r.byzSign(b, rnd, per, s, pv, l)
		if err != nil {
			r.note("BYZ-SIGN-FAILED %v", err)
			return uv, false
		}
		r.mu.Lock()
		r.emitLocked(&ndEv{round: rnd, node: b.id, kind: 'v', gen: 0, p: per, step: s, val: valTok, released: true,
			line: fmt.Sprintf("vote %d %d %d %s", b.id, per, s, valTok)})
		if r.wireVotes[key] == nil {
			r.wireVotes[key] = map[int][]unauthenticatedVote{}
		}
		r.wireVotes[key][b.id] = append(r.wireVotes[key][b.id], uv)
		r.logLocked("BYZVOTE node=%d round=%d period=%d step=%d val=%s", b.id, rnd, per, s, valTok)
		r.mu.Unlock()
		r.stats.byzVotes++
		return uv, true
	}
	if !asBundle {
		uv, ok := own()
		if !ok {
			return
		}
		r.inject(b.id, protocol.AgreementVoteTag, protocol.Encode(&uv), mask)
		return
	}
	// bundle: all distinct senders seen on the wire for the value, b's vote (or b's equivocation pair if it has one)
	if _, ok := own(); !ok {
		return
	}
	proto, err := l.ConsensusParams(ParamsRound(rnd))
	if err != nil {
		return
	}
	r.mu.Lock()
	bySender := map[int][]unauthenticatedVote{}
	for snd, vs := range r.wireVotes[key] {
		bySender[snd] = append([]unauthenticatedVote{}, vs...)
	}
	r.mu.Unlock()
	var votes []vote
	var eqs []equivocationVote
	var weight uint64
	for snd := 0; snd < r.cfg.n; snd++ {
		vs := bySender[snd]
		var forVal *unauthenticatedVote
		var other *unauthenticatedVote
		for i := range vs {
			if vs[i].R.Proposal == pv {
				forVal = &vs[i]
			} else if other == nil {
				other = &vs[i]
			}
		}
		if forVal == nil && len(vs) < 2 {
			continue
		}
		if !r.cfg.honest[snd] && len(vs) >= 2 {
			a, e1 := vs[0].verify(l)
			c, e2 := vs[1].verify(l)
			if e1 == nil && e2 == nil {
				eqs = append(eqs, equivocationVote{Sender: a.R.Sender, Round: rnd, Period: per, Step: s, Cred: a.Cred,
					Proposals: [2]proposalValue{a.R.Proposal, c.R.Proposal}, Sigs: [2]crypto.OneTimeSignature{a.Sig, c.Sig}})
				weight += a.Cred.Weight
			}
			continue
		}
		if forVal != nil {
			if v, e := forVal.verify(l); e == nil {
				votes = append(votes, v)
				weight += v.Cred.Weight
			}
		}
	}
	if len(votes) == 0 || !s.reachesQuorum(proto, weight) {
		r.note("BYZ-BUNDLE-NO-QUORUM %s weight=%d", line, weight)
		return
	}
	var ub unauthenticatedBundle
	func() {
		defer func() {
			if x := recover(); x != nil {
				r.note("BYZ-BUNDLE-PANIC %v", x)
			}
		}()
		ub = makeBundle(proto, pv, votes, eqs)
	}()
	if len(ub.Votes) == 0 {
		return
	}
	r.stats.byzBundles++
	r.inject(b.id, protocol.VoteBundleTag, protocol.Encode(&ub), mask)
}

// byzProposal executes `bp`: b proposes its own block (variant = timestamp, so that b can propose several blocks).
func (r *ndRun) byzProposal(line string, b *ndNode, rnd basics.Round, per period, variant int, mask []bool) {
	l := r.refLedger()
	if rnd == 0 || rnd > l.NextRound() {
		r.diverged(line)
		return
	}
	part := r.world.parts[b.id]
	var tp transmittedPayload
	err := func() (err error) {
		defer func() {
			if x := recover(); x != nil {
				err = fmt.Errorf("panic: %v", x)
			}
		}()
		blk := testValidatedBlock{Inside: bookkeeping.Block{BlockHeader: bookkeeping.BlockHeader{Round: rnd, TimeStamp: int64(variant)}}}
		payload, pv, e := proposalForBlock(part.Parent, part.VRF, blk, per, l)
		if e != nil {
			return e
		}
		uv, e := r.byzSign(b, rnd, per, propose, pv, l)
		if e != nil {
			return e
		}
		tp = transmittedPayload{unauthenticatedProposal: payload.u(), PriorVote: uv}
		return nil
	}()
	if err != nil {
		r.note("BYZ-PROPOSAL-FAILED %v", err)
		return
	}
	r.inject(b.id, protocol.ProposalPayloadTag, protocol.Encode(&tp), mask)
}

// byzRelayProposal executes `bpv` (b signs a proposal-vote of period per for a value it has seen: a re-proposal) and `bpl`
// (b forwards the payload of a value it has seen, with an empty prior vote).
func (r *ndRun) byzRelayProposal(line string, b *ndNode, rnd basics.Round, per period, valTok string, mask []bool, payloadOnly bool) {
	l := r.refLedger()
	r.mu.Lock()
	pv, ok := r.valTok[valTok]
	up, have := r.payloads[valTok]
	r.mu.Unlock()
	if !ok || rnd == 0 || rnd > l.NextRound() {
		r.diverged(line)
		return
	}
	if payloadOnly {
		if !have {
			r.diverged(line)
			return
		}
		tp := transmittedPayload{unauthenticatedProposal: up}
		r.inject(b.id, protocol.ProposalPayloadTag, protocol.Encode(&tp), mask)
		return
	}
	uv, err := r.byzSign(b, rnd, per, propose, pv, l)
	if err != nil {
		r.note("BYZ-SIGN-FAILED %v", err)
		return
	}
	r.mu.Lock()
	r.logLocked("BYZPROPVOTE node=%d round=%d period=%d val=%s", b.id, rnd, per, valTok)
	r.mu.Unlock()
	r.inject(b.id, protocol.AgreementVoteTag, protocol.Encode(&uv), mask)
}
