//go:build verif

package merklearray

// C37 correspondence harness: real Build / BuildVectorCommitmentTree / Prove / Verify /
// VerifyVectorCommitment / pair.ToBeHashed on generated arrays, position sets and mutated proofs.
//
// Op grammar (see lean/AlgoVerif/Driver/C37.lean):
//   sha  <alg> <hex>
//   pair <d> <l> <r>
//   pv   <alg> <vc> <arr> <idxs>
//   vf   <alg[/palg]> <vc> <arr> <root|=> <depth> <path> <elems> <mut> [<detail>]   (palg: hash type of the proof, >= 4 invalid)
// alg = crypto.HashType (0 sha512_256, 2 sha256, 3 sha512); lists comma separated, "-" empty list,
// "_" empty byte string; arr items are the full hash pre-images (HashRep) of the leaves.
import (
	"encoding/hex"
	"errors"
	"fmt"
	"os"
	"path/filepath"
	"sort"
	"strconv"
	"strings"
	"testing"

	"github.com/algorand/go-algorand/crypto"
	"github.com/algorand/go-algorand/protocol"
	"github.com/algorand/go-algorand/zz_verif_tools/vh"
)

// verifElem is a leaf given by its complete hash pre-image.
type verifElem []byte

func (e verifElem) ToBeHashed() (protocol.HashID, []byte) { return protocol.HashID(""), []byte(e) }

type verifArr [][]byte

func (a verifArr) Length() uint64 { return uint64(len(a)) }
func (a verifArr) Marshal(pos uint64) (crypto.Hashable, error) {
	if pos >= uint64(len(a)) {
		return nil, fmt.Errorf("pos %d larger than length %d", pos, len(a))
	}
	return verifElem(a[pos]), nil
}

func verifHex(b []byte) string {
	if len(b) == 0 {
		return "_"
	}
	return hex.EncodeToString(b)
}

func verifUnhex(s string) []byte {
	if s == "_" {
		return []byte{}
	}
	b, err := hex.DecodeString(s)
	if err != nil {
		panic("bad hex " + s)
	}
	return b
}

func verifItems(s string) []string {
	if s == "-" {
		return nil
	}
	return strings.Split(s, ",")
}

func verifBytesList(s string) [][]byte {
	var out [][]byte
	for _, it := range verifItems(s) {
		out = append(out, verifUnhex(it))
	}
	return out
}

func verifShowList(l [][]byte) string {
	if len(l) == 0 {
		return "-"
	}
	s := make([]string, len(l))
	for i, b := range l {
		s[i] = verifHex(b)
	}
	return strings.Join(s, ",")
}

func verifShowPath(l []crypto.GenericDigest) string {
	bl := make([][]byte, len(l))
	for i, b := range l {
		bl[i] = b
	}
	return verifShowList(bl)
}

type verifPE struct {
	pos uint64
	e   []byte
}

func verifShowElems(l []verifPE) string {
	if len(l) == 0 {
		return "-"
	}
	s := make([]string, len(l))
	for i, pe := range l {
		s[i] = fmt.Sprintf("%d:%s", pe.pos, verifHex(pe.e))
	}
	return strings.Join(s, ",")
}

func verifErr(err error) string {
	switch {
	case err == nil:
		return "ok"
	case errors.Is(err, ErrRootMismatch):
		return "rootMismatch"
	case errors.Is(err, ErrPosOutOfBound):
		return "posOutOfBound"
	case errors.Is(err, ErrNonEmptyProofForEmptyElements):
		return "nonEmptyProof"
	case errors.Is(err, ErrUnexpectedTreeDepth):
		return "unexpectedDepth"
	case errors.Is(err, protocol.ErrInvalidObject):
		return "invalidHash"
	case errors.Is(err, ErrProvingZeroCommitment):
		return "zeroCommitment"
	case strings.Contains(err.Error(), "no more sibling hints"):
		return "noHints"
	}
	return "other(" + err.Error() + ")"
}

func verifCatch(f func() string) (res string) {
	defer func() {
		if r := recover(); r != nil {
			res = "panic"
		}
	}()
	return f()
}

func verifBuild(alg, vc string, arr [][]byte) (*Tree, crypto.HashFactory) {
	hf := crypto.HashFactory{HashType: crypto.HashType(vh.U(alg))}
	var t *Tree
	var err error
	if vc == "1" {
		t, err = BuildVectorCommitmentTree(verifArr(arr), hf)
	} else {
		t, err = Build(verifArr(arr), hf)
	}
	if err != nil {
		panic(err)
	}
	return t, hf
}

func verifVerify(vc string, root crypto.GenericDigest, elems map[uint64]crypto.Hashable, p *Proof) string {
	return verifCatch(func() string {
		if vc == "1" {
			return verifErr(VerifyVectorCommitment(root, elems, p))
		}
		return verifErr(Verify(root, elems, p))
	})
}

func verifC37Exec(op string) string {
	f := strings.Fields(op)
	switch f[0] {
	case "sha":
		h := crypto.HashFactory{HashType: crypto.HashType(vh.U(f[1]))}.NewHash()
		h.Write(verifUnhex(f[2]))
		return verifHex(h.Sum(nil))
	case "pair":
		return verifCatch(func() string {
			p := pair{l: verifUnhex(f[2]), r: verifUnhex(f[3]), hashDigestSize: int(vh.U(f[1]))}
			id, b := p.ToBeHashed()
			if id != protocol.MerkleArrayNode {
				return "bad-hashid"
			}
			return verifHex(b)
		})
	case "pv":
		arr := verifBytesList(f[3])
		var idxs []uint64
		for _, it := range verifItems(f[4]) {
			idxs = append(idxs, vh.U(it))
		}
		t, _ := verifBuild(f[1], f[2], arr)
		root := t.Root()
		elems := map[uint64]crypto.Hashable{}
		for _, i := range idxs {
			if i < uint64(len(arr)) {
				elems[i] = verifElem(arr[i])
			} else {
				elems[i] = verifElem(nil)
			}
		}
		// Prove sorts its argument in place: give it a copy
		p, err := t.Prove(append([]uint64(nil), idxs...))
		if err != nil {
			return fmt.Sprintf("root=%s prove=%s", verifHex(root), verifErr(err))
		}
		return fmt.Sprintf("root=%s depth=%d path=%s verify=%s", verifHex(root), p.TreeDepth, verifShowPath(p.Path),
			verifVerify(f[2], root, elems, p))
	case "vf":
		arr := verifBytesList(f[3])
		talg, palg := f[1], f[1]
		if ap := strings.SplitN(f[1], "/", 2); len(ap) == 2 {
			talg, palg = ap[0], ap[1]
		}
		t, _ := verifBuild(talg, f[2], arr)
		hf := crypto.HashFactory{HashType: crypto.HashType(vh.U(palg))}
		hroot := t.Root()
		root := hroot
		if f[4] != "=" {
			root = verifUnhex(f[4])
		}
		p := &Proof{HashFactory: hf, TreeDepth: uint8(vh.U(f[5]))}
		for _, b := range verifBytesList(f[6]) {
			p.Path = append(p.Path, crypto.GenericDigest(b))
		}
		elems := map[uint64]crypto.Hashable{}
		for _, it := range verifItems(f[7]) {
			kv := strings.SplitN(it, ":", 2)
			elems[vh.U(kv[0])] = verifElem(verifUnhex(kv[1]))
		}
		honest := 0
		if string(root) == string(hroot) {
			honest = 1
		}
		return fmt.Sprintf("%s honest=%d", verifVerify(f[2], root, elems, p), honest)
	}
	return "bad-op"
}

// ---------------------------------------------------------------------------------- generator

type verifC37Gen struct {
	rng  *vh.Rng
	ops  []string
	ctr  uint32
	seen map[string]bool
}

func (g *verifC37Gen) add(op string) {
	if !g.seen[op] {
		g.seen[op] = true
		g.ops = append(g.ops, op)
	}
}

// fresh distinct leaf pre-image: "TE" ‖ counter ‖ random byte (never starts with "MA"/"MB")
func (g *verifC37Gen) elem() []byte {
	g.ctr++
	return []byte{'T', 'E', byte(g.ctr >> 16), byte(g.ctr >> 8), byte(g.ctr), byte(g.rng.U64())}
}

func (g *verifC37Gen) array(n int) [][]byte {
	a := make([][]byte, n)
	for i := range a {
		a[i] = g.elem()
	}
	return a
}

func verifClone(l [][]byte) [][]byte {
	out := make([][]byte, len(l))
	for i, b := range l {
		out[i] = append([]byte{}, b...)
	}
	return out
}

// mutations of one honest (arr, S, proof): every emitted op is a complete verification instance.
func (g *verifC37Gen) mutate(alg, vc int, arr [][]byte, idxs []uint64, full bool) {
	t, _ := verifBuild(strconv.Itoa(alg), strconv.Itoa(vc), arr)
	p, err := t.Prove(append([]uint64(nil), idxs...))
	if err != nil {
		// a Prove that fails on in-range positions is reported through the pv op of the same subset
		return
	}
	n := uint64(len(arr))
	depth := int(p.TreeDepth)
	root := []byte(t.Root())
	var path [][]byte
	for _, d := range p.Path {
		path = append(path, append([]byte{}, d...))
	}
	set := map[uint64]bool{}
	var S []uint64
	for _, i := range idxs {
		if !set[i] {
			set[i] = true
			S = append(S, i)
		}
	}
	sort.Slice(S, func(a, b int) bool { return S[a] < S[b] })
	base := make([]verifPE, len(S))
	for k, i := range S {
		base[k] = verifPE{i, arr[i]}
	}
	emit := func(rootS string, d int, pth [][]byte, el []verifPE, mut string) {
		g.add(fmt.Sprintf("vf %d %d %s %s %d %s %s %s", alg, vc, verifShowList(arr), rootS, d, verifShowList(pth), verifShowElems(el), mut))
	}
	cp := func() []verifPE { return append([]verifPE(nil), base...) }
	emit("=", depth, path, base, "none")
	pick := func(k int) bool { return full || g.rng.Intn(k) == 0 }
	// --- hash factory of the proof: another valid type, invalid types (invalidHash: every digest empty)
	emitH := func(palg int, rootS string, d int, pth [][]byte, el []verifPE, mut string) {
		g.add(fmt.Sprintf("vf %d/%d %d %s %s %d %s %s %s", alg, palg, vc, verifShowList(arr), rootS, d, verifShowList(pth), verifShowElems(el), mut))
	}
	other := 2
	if alg == 2 {
		other = 0
	}
	emitH(other, "=", depth, path, base, "hash other-valid")
	for _, bad := range []int{4, 99, 65535} {
		if bad != 99 && !pick(3) {
			continue
		}
		emitH(bad, "=", depth, path, base, "hash invalid")
		emitH(bad, "_", depth, path, base, "hash invalid root empty")
		empties := make([][]byte, len(path))
		for i := range empties {
			empties[i] = []byte{}
		}
		emitH(bad, "=", depth, empties, base, "hash invalid path emptied")
		emitH(bad, "_", depth, empties, base, "hash invalid root empty path emptied")
	}

	// --- element
	for k, i := range S {
		if pick(2) {
			el := cp()
			el[k].e = g.elem()
			emit("=", depth, path, el, "elem fresh")
		}
		if n > 1 && pick(2) {
			j := (i + 1 + uint64(g.rng.Intn(int(n-1)))) % n
			el := cp()
			el[k].e = arr[j]
			emit("=", depth, path, el, fmt.Sprintf("elem arr[%d]", j))
		}
		if pick(3) {
			el := cp()
			el[k].e = append(append([]byte{}, arr[i]...), 0)
			emit("=", depth, path, el, "elem extended")
		}
	}
	// --- position: ±1, n, n+1, 2^depth-1, 2^depth, and (singletons) every position below 2^(depth+1)
	for k, i := range S {
		cands := []uint64{i + 1, n, n + 1, uint64(1)<<uint(depth) - 1, uint64(1) << uint(depth), i ^ 1, i + 2}
		if i > 0 {
			cands = append(cands, i-1)
		}
		if len(S) == 1 && (full || n <= 4) {
			for j := uint64(0); j < uint64(2)<<uint(depth); j++ {
				cands = append(cands, j)
			}
		}
		for _, j := range cands {
			if set[j] {
				continue
			}
			el := cp()
			el[k].pos = j
			emit("=", depth, path, el, fmt.Sprintf("pos %d->%d", i, j))
		}
	}
	// --- root
	{
		r := append([]byte{}, root...)
		r[g.rng.Intn(len(r))] ^= 1 << uint(g.rng.Intn(8))
		emit(verifHex(r), depth, path, base, "root bitflip")
		if pick(2) {
			emit("_", depth, path, base, "root empty")
		}
		if pick(2) {
			emit(verifHex(t.Levels[0][S[0]]), depth, path, base, "root leafhash")
		}
		if pick(2) {
			emit(verifHex(append(append([]byte{}, root...), 0)), depth, path, base, "root extended")
		}
	}
	// --- path entries
	dsz := len(root)
	for k := range path {
		if !pick(2) && k > 0 {
			continue
		}
		m := func(f func(b []byte) []byte, name string) {
			pp := verifClone(path)
			pp[k] = f(pp[k])
			emit("=", depth, pp, base, fmt.Sprintf("path[%d] %s", k, name))
		}
		m(func(b []byte) []byte { return []byte{} }, "emptied")
		m(func(b []byte) []byte { return append(b, 0) }, "extended0")
		m(func(b []byte) []byte { return append(b, 7) }, "extended7")
		m(func(b []byte) []byte { return make([]byte, dsz) }, "zeros")
		m(func(b []byte) []byte { return make([]byte, 2*dsz+1) }, "toolong")
		if len(path[k]) > 0 {
			m(func(b []byte) []byte { b[g.rng.Intn(len(b))] ^= 1 << uint(g.rng.Intn(8)); return b }, "bitflip")
			m(func(b []byte) []byte { return b[:len(b)-1] }, "truncated")
			m(func(b []byte) []byte { return b[1:] }, "shifted")
		}
		// structural
		pp := append(verifClone(path[:k]), verifClone(path[k+1:])...)
		emit("=", depth, pp, base, fmt.Sprintf("path[%d] dropped", k))
		pp = append(append(verifClone(path[:k+1]), append([]byte{}, path[k]...)), verifClone(path[k+1:])...)
		emit("=", depth, pp, base, fmt.Sprintf("path[%d] duplicated", k))
		if k+1 < len(path) {
			pp = verifClone(path)
			pp[k], pp[k+1] = pp[k+1], pp[k]
			emit("=", depth, pp, base, fmt.Sprintf("path[%d] swapped", k))
		}
	}
	emit("=", depth, append(verifClone(path), []byte{}), base, "path appended-empty")
	emit("=", depth, append(verifClone(path), make([]byte, dsz)), base, "path appended-zeros")
	emit("=", depth, append(verifClone(path), root), base, "path appended-root")
	if len(path) > 0 {
		emit("=", depth, nil, base, "path cleared")
	}
	// --- elements dropped / added (proof unchanged)
	if len(S) > 1 {
		k := g.rng.Intn(len(S))
		emit("=", depth, path, append(cp()[:k], base[k+1:]...), "elems dropped")
	}
	for j := uint64(0); j < n; j++ {
		if !set[j] && pick(3) {
			el := append(cp(), verifPE{j, arr[j]})
			emit("=", depth, path, el, "elems added")
			break
		}
	}
	emit("=", depth, path, nil, "elems none")
	// --- declared depth alone
	for _, d := range []int{depth - 1, depth + 1, depth + 2, 0, 63, 64, 255} {
		if d >= 0 && d != depth {
			emit("=", d, path, base, fmt.Sprintf("depth %d->%d", depth, d))
		}
	}
	// --- declared depth together with the positions it re-maps (vector commitments: the depth selects
	//     the bit-reversal map; plain: only the bound)
	for k := 1; k <= 2; k++ {
		el := cp()
		for x := range el {
			el[x].pos <<= uint(k)
		}
		emit("=", depth+k, path, el, fmt.Sprintf("depth %d->%d pos<<%d", depth, depth+k, k))
		if depth-k >= 0 {
			el = cp()
			ok := true
			seenp := map[uint64]bool{}
			for x := range el {
				el[x].pos >>= uint(k)
				if seenp[el[x].pos] {
					ok = false
				}
				seenp[el[x].pos] = true
			}
			if ok {
				emit("=", depth-k, path, el, fmt.Sprintf("depth %d->%d pos>>%d", depth, depth-k, k))
			}
		}
	}
	// --- domain separation probes (outside the hypotheses of the soundness theorem; tie only):
	//     an inner node presented as a leaf one level up with the proof shortened accordingly
	if vc == 0 && len(S) == 1 && depth >= 1 && len(path) >= 1 {
		i := S[0]
		var l, r []byte
		if i%2 == 0 {
			l, r = t.Levels[0][i], path[0]
		} else {
			l, r = path[0], t.Levels[0][i]
		}
		if len(l) == dsz && (len(r) == dsz || len(r) == 0) {
			pre := append([]byte("MA"), l...)
			pre = append(pre, r...)
			pre = append(pre, make([]byte, dsz-len(r))...)
			emit("=", depth-1, path[1:], []verifPE{{i / 2, pre}}, "dsep node-as-leaf")
		}
	}
}

func (g *verifC37Gen) subsetOps(alg, vc int, arr [][]byte, S []uint64) {
	idx := make([]string, len(S))
	for i, s := range S {
		idx[i] = strconv.FormatUint(s, 10)
	}
	is := "-"
	if len(idx) > 0 {
		is = strings.Join(idx, ",")
	}
	g.add(fmt.Sprintf("pv %d %d %s %s", alg, vc, verifShowList(arr), is))
}

func verifC37Generate() []string {
	g := &verifC37Gen{rng: vh.NewRng(vh.Seed()), seen: map[string]bool{}}
	rng := g.rng
	// 1. hash function of the driver against crypto.HashFactory (all lengths around the padding boundaries)
	for _, alg := range []int{0, 2, 3} {
		for n := 0; n <= 300; n++ {
			if n <= 140 || n >= 236 && n <= 260 || n%37 == 0 {
				g.add(fmt.Sprintf("sha %d %s", alg, verifHex(rng.Bytes(n))))
			}
		}
	}
	// 2. pair.ToBeHashed on every length combination (incl. empty left / over-long left)
	for _, d := range []int{1, 4} {
		for ll := 0; ll <= 2*d+2; ll++ {
			for rl := 0; rl <= 2*d+2; rl++ {
				l, r := make([]byte, ll), make([]byte, rl)
				for i := range l {
					l[i] = byte(0x10 + i)
				}
				for i := range r {
					r[i] = byte(0xa0 + i)
				}
				g.add(fmt.Sprintf("pair %d %s %s", d, verifHex(l), verifHex(r)))
			}
		}
	}
	// 3. exhaustive small universe: every position subset of every array of size 0..N
	maxN := 6
	if vh.Thorough() {
		maxN = 9
	}
	algs := []int{0, 2}
	for n := 0; n <= maxN; n++ {
		for _, alg := range algs {
			for vc := 0; vc <= 1; vc++ {
				arr := g.array(n)
				for mask := 0; mask < 1<<uint(n); mask++ {
					var S []uint64
					for i := 0; i < n; i++ {
						if mask>>uint(i)&1 == 1 {
							S = append(S, uint64(i))
						}
					}
					g.subsetOps(alg, vc, arr, S)
					if len(S) > 0 {
						full := n <= 4 || vh.Thorough() && n <= 6
						if full || len(S) <= 1 || rng.Intn(4) == 0 {
							g.mutate(alg, vc, arr, S, full)
						}
					}
				}
				// Prove's own input handling: unsorted, duplicates, out of range, empty tree
				if n >= 2 {
					g.subsetOps(alg, vc, arr, []uint64{uint64(n - 1), 0, uint64(n - 1), 0})
					g.subsetOps(alg, vc, arr, []uint64{1, 1})
					g.mutate(alg, vc, arr, []uint64{uint64(n - 1), 0, uint64(n - 1)}, false)
				}
				g.subsetOps(alg, vc, arr, []uint64{uint64(n)})
				g.subsetOps(alg, vc, arr, []uint64{0, uint64(n) + 5})
			}
		}
	}
	// the empty array (root = empty digest): nothing may verify against it, whatever the proof says
	for _, alg := range algs {
		for vc := 0; vc <= 1; vc++ {
			x, y := g.elem(), g.elem()
			for _, palg := range []int{alg, 2 - alg, 3, 4, 99, 65535} {
				for _, rootS := range []string{"=", "_"} {
					for _, d := range []int{0, 1, 2} {
						for _, pth := range []string{"-", "_", "_,_", verifHex(make([]byte, 32))} {
							for _, el := range [][]verifPE{{{0, x}}, {{0, x}, {1, y}}, {{1, y}}, {{2, x}, {3, y}}} {
								g.add(fmt.Sprintf("vf %d/%d %d - %s %d %s %s emptyarr", alg, palg, vc, rootS, d, pth, verifShowElems(el)))
							}
						}
					}
				}
			}
		}
	}
	// sha512 (64-byte digests) on a few shapes
	for _, n := range []int{1, 3, 5} {
		for vc := 0; vc <= 1; vc++ {
			arr := g.array(n)
			g.subsetOps(3, vc, arr, []uint64{uint64(n - 1)})
			g.mutate(3, vc, arr, []uint64{uint64(n - 1)}, false)
		}
	}
	// 4. larger arrays, random subsets (sizes around powers of two, odd sizes)
	cases := vh.Budget(40, 1500)
	for c := 0; c < cases; c++ {
		var n int
		switch rng.Intn(4) {
		case 0:
			n = 7 + rng.Intn(30)
		case 1:
			n = (1 << uint(3+rng.Intn(8))) + rng.Intn(3) - 1
		case 2:
			n = 7 + rng.Intn(300)
		default:
			n = 7 + rng.Intn(1018)
		}
		if n > 1024 {
			n = 1024
		}
		alg := algs[rng.Intn(2)]
		vc := rng.Intn(2)
		arr := g.array(n)
		k := 1 + rng.Intn(12)
		var S []uint64
		for j := 0; j < k; j++ {
			switch rng.Intn(4) {
			case 0:
				S = append(S, uint64(n-1))
			case 1:
				if len(S) > 0 {
					S = append(S, (S[len(S)-1]^1)%uint64(n))
				} else {
					S = append(S, 0)
				}
			default:
				S = append(S, uint64(rng.Intn(n)))
			}
		}
		g.subsetOps(alg, vc, arr, S)
		if n <= 64 || c%8 == 0 {
			g.mutate(alg, vc, arr, S, false)
		}
	}
	return g.ops
}

// TestVerifC37Facts observes, on the real functions, the two source facts the model is parametrised by.
func TestVerifC37Facts(t *testing.T) {
	enc := verifCatch(func() string {
		_, b := pair{l: nil, r: []byte{1, 2}, hashDigestSize: 2}.ToBeHashed()
		_, b2 := pair{l: []byte{9}, r: []byte{1, 2}, hashDigestSize: 2}.ToBeHashed()
		switch {
		case string(b) == string([]byte{1, 2, 0, 0}) && string(b2) == string([]byte{9, 1, 2, 0}):
			return "lenl"
		case string(b) == string([]byte{0, 0, 1, 2}) && string(b2) == string([]byte{9, 0, 1, 2}):
			return "fixed"
		}
		return "other"
	})
	hf := crypto.HashFactory{HashType: crypto.Sha512_256}
	probe := func(vc bool) string {
		arr := verifArr{[]byte("TEa"), []byte("TEb")}
		var tr *Tree
		if vc {
			tr, _ = BuildVectorCommitmentTree(arr, hf)
		} else {
			tr, _ = Build(arr, hf)
		}
		p, _ := tr.Prove([]uint64{0})
		q := *p
		q.TreeDepth = 3
		el := map[uint64]crypto.Hashable{0: verifElem(arr[0])}
		var e0, e1 error
		if vc {
			e0, e1 = VerifyVectorCommitment(tr.Root(), el, p), VerifyVectorCommitment(tr.Root(), el, &q)
		} else {
			e0, e1 = Verify(tr.Root(), el, p), Verify(tr.Root(), el, &q)
		}
		if e0 != nil {
			return "broken"
		}
		if e1 == nil {
			return "no"
		}
		if errors.Is(e1, ErrUnexpectedTreeDepth) {
			return "yes"
		}
		return "other"
	}
	dp, dv := probe(false), probe(true)
	depth := "other"
	switch {
	case dp == "no" && dv == "no":
		depth = "nodepth"
	case dp == "yes" && dv == "yes":
		depth = "depth"
	case dp == "no" && dv == "yes":
		depth = "vconly"
	}
	// does Verify reject a proof whose HashFactory is not valid?
	hashcheck := verifCatch(func() string {
		et, _ := Build(verifArr{}, hf)
		bad := &Proof{HashFactory: crypto.HashFactory{HashType: 99}}
		e1 := Verify(et.Root(), map[uint64]crypto.Hashable{0: verifElem("TEx")}, bad)
		switch {
		case e1 == nil:
			return "nohashcheck"
		case errors.Is(e1, protocol.ErrInvalidObject):
			return "hashcheck"
		}
		return "other"
	})
	dir := os.Getenv("VERIF_OUT")
	if dir == "" {
		dir = os.TempDir()
	}
	if err := os.WriteFile(filepath.Join(dir, "c37.facts"), []byte(enc+" "+depth+" "+hashcheck+"\n"), 0o644); err != nil {
		t.Fatal(err)
	}
}

// verifC37Corpus: op lines of $VERIF_C37_CORPUS/*.ops (past findings), run first.
func verifC37Corpus() []string {
	dir := os.Getenv("VERIF_C37_CORPUS")
	if dir == "" {
		return nil
	}
	files, _ := filepath.Glob(filepath.Join(dir, "*.ops"))
	sort.Strings(files)
	var out []string
	for _, f := range files {
		b, err := os.ReadFile(f)
		if err != nil {
			continue
		}
		for _, l := range strings.Split(string(b), "\n") {
			if strings.HasPrefix(strings.TrimSpace(l), "vf ") || strings.HasPrefix(strings.TrimSpace(l), "pv ") {
				out = append(out, strings.TrimSpace(l))
			}
		}
	}
	return out
}

func TestVerifC37(t *testing.T) {
	ops, replay := vh.ReplayOps()
	if !replay {
		ops = append(verifC37Corpus(), verifC37Generate()...)
	}
	out := vh.Open("c37")
	defer out.Close()
	for _, op := range ops {
		out.Emit(op, vh.Catch(func() string { return verifC37Exec(op) }))
	}
}
