//go:build verif

package merkletrie

// C17 correspondence harness: drives the REAL Trie (node.go / trie.go / cache.go) over the package's
// InMemoryCommitter with varying page configurations.
//
// Op grammar (one op per line, keys in hex, "-" = empty key):
//   reset <nodesPerPage> <cachedNodes> <fillPct> <maxChildPages>   new committer + MakeTrie           ⇒ ok | err:<e>
//   add <k> | del <k>                                              Trie.Add / Trie.Delete            ⇒ true | false | err:<e>
//   commit                                                         Trie.Commit                       ⇒ ok
//   evict | evictnc                                                Trie.Evict(true) / Evict(false)   ⇒ ok | err:pending
//   reload [<cachedNodes> <fillPct> <maxChildPages>]               MakeTrie over the SAME committer  ⇒ ok   (uncommitted changes are lost = crash)
//   reloadbad                                                      MakeTrie with a different page size ⇒ err:pagesize | ok (empty store)
//   root                                                           Trie.RootHash (commits if modified) ⇒ <hex digest>
//   dump                                                           walk of the real nodes            ⇒ E | L<hex> | N(<idx>:<sub>,…)   (+ !mask / !order anomalies)
//   diskdump                                                       walk of the COMMITTED pages only (decodePage)  ⇒ same format as dump
//   stats                                                          Trie.GetStats                     ⇒ <nodes> <leafs> <depth>
//   sha <hex>                                                      crypto.Hash                       ⇒ <hex digest>   (validates Base/Sha512.lean)
// Side channel: $VERIF_OUT/c17.stats (JSON counters: evicted nodes, loaded pages, reallocations, …).

import (
	"encoding/hex"
	"encoding/json"
	"errors"
	"fmt"
	"os"
	"path/filepath"
	"sort"
	"strconv"
	"strings"
	"testing"

	"github.com/algorand/go-algorand/crypto"
	"github.com/algorand/go-algorand/zz_verif_tools/vh"
)

type verifC17State struct {
	mt        *Trie
	committer *InMemoryCommitter
	cfg       MemoryConfig
	counters  map[string]int
	caseNo    int   // ordinal of the current case (reset lines)
	armed     []int // cases in which an eviction dropped the partially filled allocation page WITHOUT arranging its reload (the defect fixed by 5694464a92)
}

// allocPageEvicted reports whether the page that the next allocated node id falls into is partially filled,
// stored by the committer, and absent from memory; `deferred` tells whether the cache has arranged to merge the
// stored page back before the next commit (cache.deferedPageLoad). Without that, the next allocation re-creates
// the page in memory with the new nodes only and the following commit stores it without the evicted nodes.
func (s *verifC17State) allocPageEvicted() (evicted bool, deferred bool) {
	mt := s.mt
	npp := mt.cache.nodesPerPage
	if int64(mt.nextNodeID)%npp == 0 {
		return false, false
	}
	page := uint64(mt.nextNodeID) / uint64(npp)
	if _, inMem := mt.cache.pageToNIDsPtr[page]; inMem {
		return false, false
	}
	if b, _ := s.committer.LoadPage(page); len(b) == 0 {
		return false, false
	}
	return true, page == mt.cache.deferedPageLoad
}

func verifC17Key(s string) []byte {
	if s == "-" {
		return []byte{}
	}
	b, err := hex.DecodeString(s)
	if err != nil {
		panic("bad hex " + s)
	}
	return b
}

func verifC17Hex(b []byte) string {
	if len(b) == 0 {
		return "-"
	}
	return hex.EncodeToString(b)
}

func verifC17Err(err error) string {
	switch {
	case err == nil:
		return "ok"
	case errors.Is(err, ErrMismatchingElementLength):
		return "err:length"
	case errors.Is(err, ErrMismatchingPageSize):
		return "err:pagesize"
	case errors.Is(err, ErrUnableToEvictPendingCommits):
		return "err:pending"
	case errors.Is(err, ErrLoadedPageMissingNode):
		return "err:missingnode"
	case errors.Is(err, ErrPageDecodingFailure):
		return "err:pagedecode"
	case errors.Is(err, ErrRootPageDecodingFailure):
		return "err:rootdecode"
	}
	return "err:other " + err.Error()
}

func verifC17Cfg(npp, cache, fill, maxc string) MemoryConfig {
	f, _ := strconv.Atoi(fill)
	return MemoryConfig{
		NodesCountPerPage:         int64(vh.U(npp)),
		CachedNodesCount:          int(vh.U(cache)),
		PageFillFactor:            float32(f) / 100.0,
		MaxChildrenPagesThreshold: vh.U(maxc),
	}
}

// verifC17Dump walks the real node graph through the cache (loading evicted pages on the way).
func (s *verifC17State) dump(id storedNodeIdentifier, sb *strings.Builder) error {
	n, err := s.mt.cache.getNode(id)
	if err != nil {
		return err
	}
	if n.leaf() {
		sb.WriteString("L")
		sb.WriteString(verifC17Hex(n.hash))
		if !n.childrenMask.IsZero() {
			sb.WriteString("!mask")
		}
		return nil
	}
	sb.WriteString("N(")
	var mask bitset
	// copy: getNode on children may not mutate n, but be defensive against slice reuse
	children := append([]childEntry(nil), n.children...)
	for i, c := range children {
		if i > 0 {
			sb.WriteString(",")
			if children[i-1].hashIndex >= c.hashIndex {
				sb.WriteString("!order")
			}
		}
		mask.SetBit(c.hashIndex)
		fmt.Fprintf(sb, "%02x:", c.hashIndex)
		if err := s.dump(c.id, sb); err != nil {
			return err
		}
	}
	sb.WriteString(")")
	if mask != n.childrenMask {
		sb.WriteString("!mask")
	}
	return nil
}

// diskDump reads the logical trie from the committer's pages alone (root page + decodePage), without the cache.
func (s *verifC17State) diskDump() string {
	rootBytes, _ := s.committer.LoadPage(storedNodeIdentifierNull)
	if rootBytes == nil {
		return "E"
	}
	var hdr Trie
	if _, err := hdr.deserialize(rootBytes); err != nil {
		return verifC17Err(err)
	}
	if hdr.root == storedNodeIdentifierNull {
		return "E"
	}
	pages := map[uint64]map[storedNodeIdentifier]*node{}
	var walk func(id storedNodeIdentifier, sb *strings.Builder, depth int) string
	walk = func(id storedNodeIdentifier, sb *strings.Builder, depth int) string {
		if depth > 70 {
			return "err:cycle"
		}
		page := uint64(id) / uint64(s.cfg.NodesCountPerPage)
		if pages[page] == nil {
			b, _ := s.committer.LoadPage(page)
			if len(b) == 0 {
				return fmt.Sprintf("err:diskpage-missing %d", page)
			}
			dec, err := decodePage(b)
			if err != nil {
				return verifC17Err(err)
			}
			pages[page] = dec
		}
		n := pages[page][id]
		if n == nil {
			return "err:disknode-missing"
		}
		if n.leaf() {
			sb.WriteString("L" + verifC17Hex(n.hash))
			return ""
		}
		sb.WriteString("N(")
		for i, c := range n.children {
			if i > 0 {
				sb.WriteString(",")
				if n.children[i-1].hashIndex >= c.hashIndex {
					sb.WriteString("!order")
				}
			}
			fmt.Fprintf(sb, "%02x:", c.hashIndex)
			if e := walk(c.id, sb, depth+1); e != "" {
				return e
			}
		}
		sb.WriteString(")")
		return ""
	}
	var sb strings.Builder
	if e := walk(hdr.root, &sb, 0); e != "" {
		return e + " " + sb.String()
	}
	return sb.String()
}

func (s *verifC17State) exec(op string) string {
	f := strings.Fields(op)
	if len(f) == 0 {
		return "bad-op"
	}
	return vh.Catch(func() string {
		switch f[0] {
		case "sha":
			d := crypto.Hash(verifC17Key(f[1]))
			return hex.EncodeToString(d[:])
		case "reset":
			s.cfg = verifC17Cfg(f[1], f[2], f[3], f[4])
			s.committer = &InMemoryCommitter{}
			mt, err := MakeTrie(s.committer, s.cfg)
			s.mt = mt
			s.counters["cases"]++
			s.caseNo++
			return verifC17Err(err)
		}
		if s.mt == nil {
			return "err:notrie"
		}
		switch f[0] {
		case "add":
			r, err := s.mt.Add(verifC17Key(f[1]))
			if err != nil {
				return verifC17Err(err)
			}
			return vh.B(r)
		case "del":
			r, err := s.mt.Delete(verifC17Key(f[1]))
			if err != nil {
				return verifC17Err(err)
			}
			return vh.B(r)
		case "commit":
			st, err := s.mt.Commit()
			s.countCommit(st)
			return verifC17Err(err)
		case "evict", "evictnc":
			n, err := s.mt.Evict(f[0] == "evict")
			if err == nil {
				if evicted, deferred := s.allocPageEvicted(); evicted {
					s.counters["evictions_dropping_allocation_page"]++
					if !deferred {
						if len(s.armed) == 0 || s.armed[len(s.armed)-1] != s.caseNo {
							s.armed = append(s.armed, s.caseNo)
						}
						s.counters["evictions_dropping_allocation_page_without_reload"]++
					}
				}
				s.counters["evict_calls"]++
				s.counters["evicted_nodes"] += n
				if n > 0 {
					s.counters["evict_calls_dropping_nodes"]++
				}
			}
			return verifC17Err(err)
		case "reload", "reloadbad":
			cfg := s.cfg
			if len(f) == 4 {
				cfg = verifC17Cfg(strconv.FormatInt(s.cfg.NodesCountPerPage, 10), f[1], f[2], f[3])
			}
			if f[0] == "reloadbad" {
				cfg.NodesCountPerPage++
				_, err := MakeTrie(s.committer, cfg)
				return verifC17Err(err)
			}
			mt, err := MakeTrie(s.committer, cfg)
			if err != nil {
				return verifC17Err(err)
			}
			if s.mt.cache.modified {
				s.counters["reload_discarding_uncommitted"]++
			}
			s.counters["reloads"]++
			s.mt, s.cfg = mt, cfg
			return "ok"
		case "root":
			before := len(s.mt.cache.pageToNIDsPtr)
			_ = before
			d, err := s.mt.RootHash()
			if err != nil {
				return verifC17Err(err)
			}
			return hex.EncodeToString(d[:])
		case "dump":
			if s.mt.root == storedNodeIdentifierNull {
				return "E"
			}
			var sb strings.Builder
			if err := s.dump(s.mt.root, &sb); err != nil {
				return verifC17Err(err) + " " + sb.String()
			}
			return sb.String()
		case "diskdump":
			return s.diskDump()
		case "stats":
			st, err := s.mt.GetStats()
			if err != nil {
				return verifC17Err(err)
			}
			return fmt.Sprintf("%d %d %d", st.NodesCount, st.LeafCount, st.Depth)
		}
		return "bad-op"
	})
}

func (s *verifC17State) countCommit(st CommitStats) {
	c := s.counters
	c["commits"]++
	c["commit_new_pages"] += st.NewPageCount
	c["commit_updated_pages"] += st.UpdatedPageCount
	c["commit_deleted_pages"] += st.DeletedPageCount
	c["commit_fanout_reallocated_nodes"] += st.FanoutReallocatedNodeCount
	c["commit_packing_reallocated_nodes"] += st.PackingReallocatedNodeCount
	c["commit_loaded_pages"] += st.LoadedPages
}

// ---------------------------------------------------------------------------------------------- generator

type verifC17Gen struct {
	rng *vh.Rng
	ops []string
	npp int // nodesPerPage of the current case (cache sizes are chosen relative to it)
}

func (g *verifC17Gen) emit(format string, a ...interface{}) {
	g.ops = append(g.ops, fmt.Sprintf(format, a...))
}

var verifC17Npp = []int{2, 3, 4, 5, 8, 16, 116, 512}

// cache sizes are generated as <pages>*nodesPerPage + jitter; the page multipliers come from
// VERIF_C17_CACHEPAGES (comma separated) when set.
var verifC17CachePages = []int{0, 1, 2, 3, 5, 20, 1000}

func init() {
	if e := os.Getenv("VERIF_C17_CACHEPAGES"); e != "" {
		verifC17CachePages = nil
		for _, x := range strings.Split(e, ",") {
			v, _ := strconv.Atoi(x)
			verifC17CachePages = append(verifC17CachePages, v)
		}
	}
}
var verifC17Fill = []int{0, 30, 50, 75, 90, 95, 100}
var verifC17MaxChild = []int{1, 2, 3, 4, 32, 64}

func (g *verifC17Gen) cfgTail() string {
	r := g.rng
	cache := verifC17CachePages[r.Intn(len(verifC17CachePages))] * g.npp
	if cache > 0 && r.Chance(30) {
		cache += r.Intn(g.npp)
	}
	return fmt.Sprintf("%d %d %d", cache, verifC17Fill[r.Intn(len(verifC17Fill))], verifC17MaxChild[r.Intn(len(verifC17MaxChild))])
}

func (g *verifC17Gen) reset() {
	g.npp = verifC17Npp[g.rng.Intn(len(verifC17Npp))]
	g.emit("reset %d %s", g.npp, g.cfgTail())
}

// storeOp emits one store-layer op (commit / evict / reload / crash-reload / observation)
func (g *verifC17Gen) storeOp() {
	r := g.rng
	switch r.Intn(13) {
	case 12:
		g.emit("diskdump")
	case 0, 1, 2:
		g.emit("commit")
	case 3, 4:
		g.emit("evict")
	case 5:
		g.emit("evictnc")
	case 6:
		g.emit("commit")
		g.emit("reload")
	case 7:
		g.emit("evict")
		g.emit("reload %s", g.cfgTail())
	case 8:
		if r.Chance(50) {
			g.emit("reload") // crash: uncommitted changes are lost
		} else {
			g.emit("reloadbad")
		}
	case 9:
		g.emit("root")
	case 10:
		g.emit("dump")
	case 11:
		g.emit("stats")
	}
}

func (g *verifC17Gen) finish() {
	g.emit("stats")
	g.emit("dump")
	g.emit("root")
	g.emit("diskdump")
	if g.rng.Chance(30) {
		g.emit("evict")
		g.emit("reload %s", g.cfgTail())
		g.emit("dump")
		g.emit("root")
	}
}

// randomCase: random adds/deletes of keys from `pool` with store ops in between (density storePct).
func (g *verifC17Gen) randomCase(pool []string, n int, storePct int, delPct int) {
	g.reset()
	for i := 0; i < n; i++ {
		k := pool[g.rng.Intn(len(pool))]
		if g.rng.Chance(delPct) {
			g.emit("del %s", k)
		} else {
			g.emit("add %s", k)
		}
		if g.rng.Chance(storePct) {
			g.storeOp()
		}
	}
	g.finish()
}

// variants: the same final set S reached three further ways (metamorphic group): sorted fresh build without
// any commit, a shuffled build with a different page configuration and a random commit schedule, and a
// build of a superset followed by deletion of the extras.
func (g *verifC17Gen) variants(set []string, extras []string) {
	sorted := append([]string(nil), set...)
	sort.Strings(sorted)
	g.npp = 512
	g.emit("reset 512 10000 90 32")
	for _, k := range sorted {
		g.emit("add %s", k)
	}
	g.emit("dump")
	g.emit("root")

	sh := append([]string(nil), set...)
	for i := len(sh) - 1; i > 0; i-- {
		j := g.rng.Intn(i + 1)
		sh[i], sh[j] = sh[j], sh[i]
	}
	g.reset()
	for _, k := range sh {
		g.emit("add %s", k)
		if g.rng.Chance(40) {
			g.storeOpNoCrash()
		}
	}
	g.emit("dump")
	g.emit("root")

	all := append(append([]string(nil), set...), extras...)
	for i := len(all) - 1; i > 0; i-- {
		j := g.rng.Intn(i + 1)
		all[i], all[j] = all[j], all[i]
	}
	g.reset()
	for _, k := range all {
		g.emit("add %s", k)
		if g.rng.Chance(25) {
			g.storeOpNoCrash()
		}
	}
	for _, k := range extras {
		g.emit("del %s", k)
		if g.rng.Chance(25) {
			g.storeOpNoCrash()
		}
	}
	g.emit("dump")
	g.emit("root")
}

func (g *verifC17Gen) storeOpNoCrash() {
	switch g.rng.Intn(5) {
	case 0, 1:
		g.emit("commit")
	case 2:
		g.emit("evict")
	case 3:
		g.emit("commit")
		g.emit("reload %s", g.cfgTail())
	case 4:
		g.emit("root")
	}
}

// shortPool: all/some keys of length L over a tiny alphabet (forces shared prefixes, splits and collapses at every level)
func (g *verifC17Gen) shortPool() []string {
	r := g.rng
	alphas := [][]byte{{0x00, 0x01}, {0x00, 0xff}, {0x61, 0x62, 0x63}, {0x00, 0x01, 0xff}, {0x7f, 0x80}, {0x00, 0x40, 0x80, 0xc0}}
	a := alphas[r.Intn(len(alphas))]
	L := 1 + r.Intn(5)
	total := 1
	for i := 0; i < L; i++ {
		total *= len(a)
	}
	want := 2 + r.Intn(14)
	seen := map[string]bool{}
	var pool []string
	for i := 0; i < want*3 && len(pool) < want && len(pool) < total; i++ {
		k := make([]byte, L)
		for j := range k {
			k[j] = a[r.Intn(len(a))]
		}
		h := verifC17Hex(k)
		if !seen[h] {
			seen[h] = true
			pool = append(pool, h)
		}
	}
	return pool
}

// longPool: 32-byte keys (the shape of real callers' leaves) with forced long common prefixes
func (g *verifC17Gen) longPool(L int) []string {
	r := g.rng
	n := 3 + r.Intn(30)
	base := r.Bytes(L)
	pool := []string{verifC17Hex(base)}
	seen := map[string]bool{pool[0]: true}
	for len(pool) < n {
		var k []byte
		switch r.Intn(5) {
		case 0: // fresh random key (diverges at byte 0 with prob 255/256)
			k = r.Bytes(L)
		default: // copy an existing key and diverge at a chosen position
			src := verifC17Key(pool[r.Intn(len(pool))])
			k = append([]byte(nil), src...)
			var p int
			switch r.Intn(4) {
			case 0:
				p = L - 1
			case 1:
				p = r.Intn(3)
			case 2:
				p = L - 1 - r.Intn(3)
			default:
				p = r.Intn(L)
			}
			if p < 0 {
				p = 0
			}
			p %= L
			k[p] ^= byte(1 + r.Intn(255))
			if r.Bool() {
				for j := p + 1; j < L; j++ {
					k[j] = byte(r.U64())
				}
			}
		}
		h := verifC17Hex(k)
		if !seen[h] {
			seen[h] = true
			pool = append(pool, h)
		}
	}
	return pool
}

// wide: many children under one node (fan-out reallocation, maxChildrenPagesThreshold)
func (g *verifC17Gen) widePool() []string {
	r := g.rng
	n := 20 + r.Intn(230)
	seen := map[string]bool{}
	var pool []string
	for len(pool) < n {
		k := []byte{byte(r.Intn(2)), byte(r.U64()), byte(r.Intn(3))}
		h := verifC17Hex(k)
		if !seen[h] {
			seen[h] = true
			pool = append(pool, h)
		}
	}
	return pool
}

func (g *verifC17Gen) group(pool []string, n, storePct, delPct int) {
	// one random case, then variants reaching the same final set computed by a plain set semantics here
	start := len(g.ops)
	g.randomCase(pool, n, storePct, delPct)
	set, _ := verifC17FinalSet(g.ops[start:])
	if len(set) == 0 {
		return
	}
	var extras []string
	in := map[string]bool{}
	for _, k := range set {
		in[k] = true
	}
	for _, k := range pool {
		if !in[k] && g.rng.Chance(50) {
			extras = append(extras, k)
		}
	}
	g.variants(set, extras)
}

// verifC17FinalSet: reference set semantics of one case (used only to construct metamorphic variants;
// the check's python monitor has its own independent copy).
func verifC17FinalSet(ops []string) (final []string, ok bool) {
	cur := map[string]bool{}
	com := map[string]bool{}
	mod := false
	elen := -1
	snap := func() {
		com = map[string]bool{}
		for k := range cur {
			com[k] = true
		}
		mod = false
	}
	for _, op := range ops {
		f := strings.Fields(op)
		switch f[0] {
		case "add":
			l := len(verifC17Key(f[1]))
			if len(cur) == 0 {
				elen = l
			}
			if l == elen && !cur[f[1]] {
				cur[f[1]] = true
				mod = true
			}
		case "del":
			if len(cur) > 0 && len(verifC17Key(f[1])) == elen && cur[f[1]] {
				delete(cur, f[1])
				mod = true
			}
		case "commit", "evict":
			snap()
		case "root":
			if len(cur) > 0 && mod {
				snap()
			}
		case "reload":
			cur = map[string]bool{}
			for k := range com {
				cur[k] = true
			}
			mod = false
			for k := range cur {
				elen = len(verifC17Key(k))
				break
			}
		}
	}
	for k := range cur {
		final = append(final, k)
	}
	sort.Strings(final)
	return final, true
}

// exhaustive: every sequence of length `depth` over {add k, del k : k ∈ universe}; a store op schedule derived from the
// sequence index is woven in (so that all schedules appear across the enumeration).
func (g *verifC17Gen) exhaustive(universe []string, depth int, cfgs []string) {
	nops := 2 * len(universe)
	total := 1
	for i := 0; i < depth; i++ {
		total *= nops
	}
	store := []string{"", "commit", "evict", "root", "commit;reload", "reload", "evict;reload 0 50 1", "dump", "commit;diskdump"}
	for idx := 0; idx < total; idx++ {
		x := idx
		g.emit("reset %s", cfgs[idx%len(cfgs)])
		sched := uint64(idx)*0x9E3779B97F4A7C15 + 12345
		for i := 0; i < depth; i++ {
			o := x % nops
			x /= nops
			if o < len(universe) {
				g.emit("add %s", universe[o])
			} else {
				g.emit("del %s", universe[o-len(universe)])
			}
			sched = sched*6364136223846793005 + 1442695040888963407
			if (sched>>33)%3 == 0 {
				for _, s := range strings.Split(store[(sched>>40)%uint64(len(store))], ";") {
					if s != "" {
						g.emit("%s", s)
					}
				}
			}
		}
		g.emit("dump")
		g.emit("root")
	}
}

func verifC17ShaInputs(rng *vh.Rng) []string {
	var out []string
	for _, n := range []int{0, 1, 2, 3, 31, 32, 33, 55, 56, 63, 64, 65, 110, 111, 112, 113, 119, 120, 127, 128, 129, 175, 176, 239, 240, 241, 255, 256, 257, 1000} {
		out = append(out, "sha "+verifC17Hex(rng.Bytes(n)))
	}
	out = append(out, "sha "+verifC17Hex(make([]byte, 111)), "sha "+verifC17Hex(make([]byte, 112)), "sha 616263")
	for i := 0; i < 40; i++ {
		out = append(out, "sha "+verifC17Hex(rng.Bytes(rng.Intn(400))))
	}
	return out
}

func verifC17Generate() []string {
	rng := vh.NewRng(vh.Seed())
	g := &verifC17Gen{rng: rng}
	g.ops = append(g.ops, verifC17ShaInputs(rng)...)

	// directed seeds: the shapes named by the design's "Catches" list
	directed := [][]string{
		// collapse after delete at depth, chain of single-child nodes
		{"reset 2 0 50 1", "add 000000", "add 000001", "add 000100", "commit", "del 000001", "dump", "root", "del 000100", "dump", "root", "add 000001", "evict", "reload", "dump", "root"},
		// children ordering (insert smaller index after larger), first child index 0 through serialize/deserialize
		{"reset 3 0 100 1", "add ff00", "add 8000", "add 0000", "add 00ff", "commit", "evict", "reload", "dump", "root", "del 8000", "commit", "reload", "dump", "root"},
		// stale hash after refurbish: commit, modify a deep leaf, root again
		{"reset 4 1 90 2", "add 61616161", "add 61616162", "add 61626161", "root", "add 61616163", "root", "del 61616163", "root", "dump"},
		// crash: uncommitted changes lost
		{"reset 8 2 90 32", "add aa01", "add aa02", "commit", "add bb03", "del aa01", "reload", "dump", "root", "stats"},
		// empty key, length mismatch, delete on empty, re-add with another length after emptying
		// eviction of the partially filled allocation page (fixed defect 5694464a92): deterministic with 2 nodes per page
		{"reset 2 0 100 64", "add 00bb00", "add 00a502", "add 000300", "evict", "add 01ed01", "commit", "add 006800", "commit", "dump", "root", "stats"},
		{"reset 2 2 75 2", "add 00bb00", "add 00a502", "add 000300", "evict", "add 01ed01", "commit", "add 006800", "commit", "dump", "root", "reload", "dump", "root"},
		{"reset 4 2 95 1", "add 4080", "add c0c0", "add 40c0", "evict", "add 8040", "commit", "dump", "root", "evict", "reload", "dump", "root"},
		{"reset 8 2 90 32", "del 00", "add -", "add -", "add 00", "del 00", "del -", "root", "add 0102", "add 01", "add 0103", "del 0102", "del 0103", "add 05", "dump", "root", "evictnc", "commit", "evictnc", "reloadbad"},
	}
	for _, d := range directed {
		g.ops = append(g.ops, d...)
	}

	// exhaustive small universes
	cfgs := []string{"2 0 50 1", "3 1 90 2", "8 2 95 32", "116 10000 95 64", "2 0 100 1", "4 0 0 3"}
	if vh.Thorough() {
		g.exhaustive([]string{"0000", "0001", "0100"}, 7, cfgs)                       // 6^7 = 279936 sequences
		g.exhaustive([]string{"000000", "000001", "0000ff", "00ff00"}, 6, cfgs)       // 8^6 = 262144
		g.exhaustive([]string{"6161", "6162", "6261", "6262"}, 5, cfgs)               // all four keys over {a,b}^2
		g.exhaustive([]string{"00", "01"}, 8, cfgs)                                   // 4^8, single-byte keys
	} else {
		g.exhaustive([]string{"0000", "0001", "0100"}, 4, cfgs)                 // 1296
		g.exhaustive([]string{"000000", "000001", "0000ff", "00ff00"}, 3, cfgs) // 512
		g.exhaustive([]string{"6161", "6162", "6261", "6262"}, 3, cfgs)
	}

	// random groups
	n := vh.Budget(1200, 12000)
	for i := 0; i < n; i++ {
		switch rng.Intn(10) {
		case 0, 1, 2, 3:
			g.group(g.shortPool(), 5+rng.Intn(60), 10+rng.Intn(40), 25+rng.Intn(30))
		case 4, 5, 6:
			g.group(g.longPool(32), 5+rng.Intn(80), 5+rng.Intn(30), 20+rng.Intn(30))
		case 7:
			g.group(g.longPool(2+rng.Intn(6)), 5+rng.Intn(80), 5+rng.Intn(30), 20+rng.Intn(30))
		case 8:
			g.group(g.widePool(), 50+rng.Intn(400), 2+rng.Intn(10), 15+rng.Intn(30))
		case 9:
			// mixed lengths: exercises ErrMismatchingElementLength and the length reset after emptying
			p := append(g.shortPool(), g.shortPool()...)
			g.randomCase(p, 5+rng.Intn(40), 20, 45)
		}
	}
	return g.ops
}

func TestVerifC17(t *testing.T) {
	ops, replay := vh.ReplayOps()
	if !replay {
		ops = verifC17Generate()
	}
	out := vh.Open("c17")
	defer out.Close()
	st := &verifC17State{counters: map[string]int{}}
	for _, op := range ops {
		out.Emit(op, st.exec(op))
	}
	dir := os.Getenv("VERIF_OUT")
	if dir == "" {
		dir = os.TempDir()
	}
	b, _ := json.Marshal(map[string]interface{}{"counters": st.counters, "armed_cases": st.armed})
	_ = os.WriteFile(filepath.Join(dir, "c17.stats"), b, 0o644)
}
