//go:build verif

package crypto

// C36 correspondence harness: forward security of OneTimeSignatureSecrets on the REAL code (real Ed25519 keys).
//
// One op line is one self-contained case:
//
//	case <start> <numBatches> <wb0> <wb1> <wo> <adv> <b:o:nk> <b:o:nk> ...
//
// = generate keys for [start, start+numBatches), then DeleteBeforeFineGrained({b,o}, nk) for every listed op in order,
// signing every identifier of the window (batches wb0..wb1 × offsets 0..wo) after every deletion (interleaved sign
// requests).  The result line describes the state after the LAST op:
//
//	<FirstBatch> <len(Batches)> <Batches!=nil> <FirstOffset> <len(Offsets)> <OffsetsPK2> <window> <adv>
//
// window: one token per identifier (rows = batches, separated by '/'):
//
//	z  Sign returned the zero OneTimeSignature and it does not verify
//	o  signature made with a retained offset subkey, verifies       b  made through a batch subkey, verifies
//	x  non-zero signature that does not verify                      w  zero signature that verifies
//
// adv (when the flag is 1): per identifier the number of RETAINED secrets (entries of Batches / Offsets, read through the
// unexported fields) with which a signature that Verify accepts for that identifier can be assembled — the holder of a
// stolen state tries every retained subkey on every identifier of the window.
import (
	"bytes"
	"fmt"
	"io"
	"os"
	"strings"
	"sync"
	"testing"
	"time"

	"github.com/algorand/go-algorand/logging"
	"github.com/algorand/go-algorand/zz_verif_tools/vh"
)

type verifC36Rng struct{ r *vh.Rng }

func (g *verifC36Rng) RandBytes(b []byte) { copy(b, g.r.Bytes(len(b))) }

type verifC36Op struct{ b, o, nk uint64 }

type verifC36Case struct {
	start, n     uint64
	wb0, wb1, wo uint64
	adv          bool
	ops          []verifC36Op
}

func (c verifC36Case) header() string {
	return fmt.Sprintf("case %d %d %d %d %d %s", c.start, c.n, c.wb0, c.wb1, c.wo, map[bool]string{false: "0", true: "1"}[c.adv])
}

func verifC36OpsString(ops []verifC36Op) string {
	var sb strings.Builder
	for _, o := range ops {
		fmt.Fprintf(&sb, " %d:%d:%d", o.b, o.o, o.nk)
	}
	return sb.String()
}

func (c verifC36Case) line() string { return c.header() + verifC36OpsString(c.ops) }

func verifC36Parse(line string) (c verifC36Case, ok bool) {
	f := strings.Fields(line)
	if len(f) < 7 || f[0] != "case" {
		return c, false
	}
	c.start, c.n, c.wb0, c.wb1, c.wo = vh.U(f[1]), vh.U(f[2]), vh.U(f[3]), vh.U(f[4]), vh.U(f[5])
	c.adv = f[6] == "1"
	for _, t := range f[7:] {
		p := strings.Split(t, ":")
		if len(p) != 3 {
			return c, false
		}
		c.ops = append(c.ops, verifC36Op{vh.U(p[0]), vh.U(p[1]), vh.U(p[2])})
	}
	if c.n > 64 || c.wb1 < c.wb0 || c.wb1-c.wb0 > 16 || c.wo > 16 {
		return c, false
	}
	return c, true
}

// verifC36Key = the secrets under test plus what the harness remembers from generation time (public data only).
type verifC36Key struct {
	s        *OneTimeSignatureSecrets
	v        OneTimeSignatureVerifier
	start    uint64
	batchPKs []ed25519PublicKey
	rng      *verifC36Rng
}

func verifC36Generate(start, n uint64, rng *verifC36Rng) *verifC36Key {
	s := GenerateOneTimeSignatureSecretsRNG(start, n, rng)
	k := &verifC36Key{s: s, v: s.OneTimeSignatureVerifier, start: start, rng: rng}
	for _, b := range s.Batches {
		k.batchPKs = append(k.batchPKs, b.PK)
	}
	return k
}

// clone: deep copy of the persistent fields (keeps nil-ness of the slices), fresh lock, own rng.
func (k *verifC36Key) clone(rng *verifC36Rng) *verifC36Key {
	n := new(OneTimeSignatureSecrets)
	n.OneTimeSignatureSecretsPersistent = k.s.OneTimeSignatureSecretsPersistent
	if k.s.Batches != nil {
		n.Batches = append(make([]ephemeralSubkey, 0, len(k.s.Batches)), k.s.Batches...)
	}
	if k.s.Offsets != nil {
		n.Offsets = append(make([]ephemeralSubkey, 0, len(k.s.Offsets)), k.s.Offsets...)
	}
	n.rng = rng
	return &verifC36Key{s: n, v: k.v, start: k.start, batchPKs: k.batchPKs, rng: rng}
}

var verifC36Message = TestingHashable{data: []byte("verif-c36 vote")}

func (k *verifC36Key) signToken(id OneTimeSignatureIdentifier) byte {
	s := k.s
	sig := s.Sign(id, verifC36Message)
	ok := k.v.Verify(id, verifC36Message, sig)
	if sig == (OneTimeSignature{}) {
		if ok {
			return 'w'
		}
		return 'z'
	}
	if !ok {
		return 'x'
	}
	for i := range s.Offsets {
		if s.Offsets[i].PK == sig.PK {
			return 'o'
		}
	}
	return 'b'
}

func (k *verifC36Key) window(c *verifC36Case) string {
	var sb []byte
	for b := c.wb0; ; b++ {
		if b != c.wb0 {
			sb = append(sb, '/')
		}
		for o := uint64(0); o <= c.wo; o++ {
			sb = append(sb, k.signToken(OneTimeSignatureIdentifier{Batch: b, Offset: o}))
		}
		if b == c.wb1 {
			break
		}
	}
	return string(sb)
}

// forgeCount: with how many of the retained secrets can a verifying signature for id be assembled?
func (k *verifC36Key) forgeCount(id OneTimeSignatureIdentifier) int {
	s := k.s
	cnt := 0
	for j := range s.Batches {
		pk, sk := ed25519GenerateKeyRNG(k.rng)
		sig := OneTimeSignature{
			Sig:    ed25519Sign(sk, HashRep(verifC36Message)),
			PK:     pk,
			PK1Sig: ed25519Sign(s.Batches[j].SK, HashRep(OneTimeSignatureSubkeyOffsetID{SubKeyPK: pk, Batch: id.Batch, Offset: id.Offset})),
			PK2:    s.Batches[j].PK,
			PK2Sig: s.Batches[j].PKSigNew,
		}
		if k.v.Verify(id, verifC36Message, sig) {
			cnt++
		}
	}
	for i := range s.Offsets {
		sig := OneTimeSignature{
			Sig:    ed25519Sign(s.Offsets[i].SK, HashRep(verifC36Message)),
			PK:     s.Offsets[i].PK,
			PK1Sig: s.Offsets[i].PKSigNew,
			PK2:    s.OffsetsPK2,
			PK2Sig: s.OffsetsPK2Sig,
		}
		if k.v.Verify(id, verifC36Message, sig) {
			cnt++
		}
	}
	return cnt
}

func (k *verifC36Key) advString(c *verifC36Case) string {
	if !c.adv {
		return "-"
	}
	var sb []byte
	for b := c.wb0; ; b++ {
		if b != c.wb0 {
			sb = append(sb, '/')
		}
		for o := uint64(0); o <= c.wo; o++ {
			n := k.forgeCount(OneTimeSignatureIdentifier{Batch: b, Offset: o})
			if n > 9 {
				n = 9
			}
			sb = append(sb, byte('0'+n))
		}
		if b == c.wb1 {
			break
		}
	}
	return string(sb)
}

func (k *verifC36Key) pk2Token() string {
	s := k.s
	if s.OffsetsPK2 == (ed25519PublicKey{}) {
		return "z"
	}
	for j := range k.batchPKs {
		if k.batchPKs[j] == s.OffsetsPK2 {
			return fmt.Sprintf("%d", k.start+uint64(j)) // uint64 wrap intended (same as batchnum in generate)
		}
	}
	return "?"
}

func (k *verifC36Key) result(c *verifC36Case, win string) string {
	s := k.s
	nn := "0"
	if s.Batches != nil {
		nn = "1"
	}
	return fmt.Sprintf("%d %d %s %d %d %s %s %s", s.FirstBatch, len(s.Batches), nn, s.FirstOffset, len(s.Offsets), k.pk2Token(), win, k.advString(c))
}

// verifC36Exec runs one case from scratch on the real code.
func verifC36Exec(line string, rng *verifC36Rng) string {
	return vh.Catch(func() string {
		c, ok := verifC36Parse(line)
		if !ok {
			return "bad-op"
		}
		k := verifC36Generate(c.start, c.n, rng)
		win := k.window(&c)
		for _, op := range c.ops {
			k.s.DeleteBeforeFineGrained(OneTimeSignatureIdentifier{Batch: op.b, Offset: op.o}, op.nk)
			win = k.window(&c)
		}
		return k.result(&c, win)
	})
}

// ---------------------------------------------------------------- exhaustive enumeration (shared prefixes)

type verifC36Sink struct{ ops, impl bytes.Buffer }

func (k *verifC36Key) fingerprint() string {
	s := k.s
	var sb bytes.Buffer
	fmt.Fprintf(&sb, "%d %d %v %d %d|", s.FirstBatch, len(s.Batches), s.Batches == nil, s.FirstOffset, len(s.Offsets))
	for i := range s.Batches {
		sb.Write(s.Batches[i].PK[:8])
	}
	sb.WriteByte('|')
	for i := range s.Offsets {
		sb.Write(s.Offsets[i].PK[:8])
	}
	sb.Write(s.OffsetsPK2[:8])
	return sb.String()
}

// verifC36DFS emits one line per node of the op tree below `k` (state after `prefix`).
// fullDepth: up to this depth every node signs the whole window and runs the forging adversary; deeper nodes whose
// retained key material is byte-identical to the parent's (the deletion was a no-op) reuse the parent's window
// (Sign takes only the read lock and is a function of the retained material), all others sign the window again.
func verifC36DFS(k *verifC36Key, c verifC36Case, alphabet []verifC36Op, prefix []verifC36Op, maxDepth, fullDepth int, parentFP, parentWin string, sink *verifC36Sink, stats *[4]int) {
	cc := c
	cc.ops = prefix
	cc.adv = len(prefix) <= fullDepth
	var win string
	fp := k.fingerprint()
	if len(prefix) > fullDepth && fp == parentFP {
		win = parentWin
		stats[1]++
	} else {
		win = k.window(&cc)
		stats[0]++
	}
	sink.ops.WriteString(cc.line())
	sink.ops.WriteByte('\n')
	sink.impl.WriteString(k.result(&cc, win))
	sink.impl.WriteByte('\n')
	if len(prefix) >= maxDepth {
		return
	}
	for _, op := range alphabet {
		ch := k.clone(k.rng)
		ch.s.DeleteBeforeFineGrained(OneTimeSignatureIdentifier{Batch: op.b, Offset: op.o}, op.nk)
		np := append(append(make([]verifC36Op, 0, len(prefix)+1), prefix...), op)
		verifC36DFS(ch, c, alphabet, np, maxDepth, fullDepth, fp, win, sink, stats)
	}
}

// verifC36Exhaustive: all op sequences of length 1..maxDepth over the alphabet, for keys [start, start+n).
// The tree is cut at depth 2 into tasks run by a worker pool; output order is the deterministic DFS order.
func verifC36Exhaustive(out *vh.Out, start, n, dil uint64, maxDepth, fullDepth int) {
	var alphabet []verifC36Op
	if start > 0 {
		alphabet = append(alphabet, verifC36Op{start - 1, 1, dil})
	}
	for b := start; b < start+n; b++ {
		for o := uint64(0); o < dil; o++ {
			alphabet = append(alphabet, verifC36Op{b, o, dil})
		}
	}
	alphabet = append(alphabet, verifC36Op{start + n, 1, dil}, verifC36Op{start + n + 1, 0, dil})
	wb0 := start
	if start > 0 {
		wb0 = start - 1
	}
	c := verifC36Case{start: start, n: n, wb0: wb0, wb1: start + n, wo: dil}

	type task struct {
		prefix []verifC36Op
		sink   *verifC36Sink
		done   chan struct{}
	}
	var tasks []*task
	if maxDepth <= 2 {
		tasks = append(tasks, &task{prefix: nil})
	} else {
		for _, a := range alphabet {
			for _, b := range alphabet {
				tasks = append(tasks, &task{prefix: []verifC36Op{a, b}})
			}
		}
	}
	for _, t := range tasks {
		t.sink = &verifC36Sink{}
		t.done = make(chan struct{})
	}
	workers := verifC36Workers()
	var mu sync.Mutex
	var total [4]int
	next := 0
	var wg sync.WaitGroup
	// the emitter releases tasks in order so that memory stays bounded by the out-of-order window
	for w := 0; w < workers; w++ {
		wg.Add(1)
		go func(w int) {
			defer wg.Done()
			for {
				mu.Lock()
				i := next
				next++
				mu.Unlock()
				if i >= len(tasks) {
					return
				}
				t := tasks[i]
				rng := &verifC36Rng{vh.NewRng(vh.Seed()*1000003 + uint64(i) + 17)}
				var stats [4]int
				func() {
					defer func() {
						if r := recover(); r != nil {
							cc := c
							cc.ops = t.prefix
							t.sink.ops.WriteString(cc.line() + "\n")
							t.sink.impl.WriteString("PANIC " + strings.ReplaceAll(fmt.Sprint(r), "\n", " ") + "\n")
						}
					}()
					k := verifC36Generate(start, n, rng)
					for _, op := range t.prefix {
						k.s.DeleteBeforeFineGrained(OneTimeSignatureIdentifier{Batch: op.b, Offset: op.o}, op.nk)
					}
					verifC36DFS(k, c, alphabet, t.prefix, maxDepth, fullDepth, "", "", t.sink, &stats)
				}()
				mu.Lock()
				for j := range stats {
					total[j] += stats[j]
				}
				mu.Unlock()
				close(t.done)
			}
		}(w)
	}
	if maxDepth > 2 {
		// depth 0..1 nodes (not covered by the depth-2 tasks): run them from scratch
		rng := &verifC36Rng{vh.NewRng(vh.Seed() + 5)}
		cc := c
		cc.adv = true
		for _, a := range alphabet {
			cc.ops = []verifC36Op{a}
			out.Emit(cc.line(), verifC36Exec(cc.line(), rng))
		}
	}
	for _, t := range tasks {
		<-t.done
		ol := strings.Split(strings.TrimSuffix(t.sink.ops.String(), "\n"), "\n")
		il := strings.Split(strings.TrimSuffix(t.sink.impl.String(), "\n"), "\n")
		for i := range ol {
			if i < len(il) {
				out.Emit(ol[i], il[i])
			}
		}
		t.sink = nil
	}
	wg.Wait()
	fmt.Printf("c36 exhaustive start=%d n=%d dil=%d depth=%d: windows signed=%d reused=%d\n", start, n, dil, maxDepth, total[0], total[1])
}

// ---------------------------------------------------------------- random / directed cases

func verifC36Random(rng *vh.Rng, count int) []string {
	var lines []string
	for i := 0; i < count; i++ {
		c := verifC36Case{adv: true}
		c.start = []uint64{0, 0, 1, 1, 2, 5, 7}[rng.Intn(7)]
		c.n = uint64(rng.Intn(6))
		dil := uint64(1 + rng.Intn(4))
		if c.start > 0 {
			c.wb0 = c.start - 1
		}
		c.wb1 = c.start + c.n + 1
		c.wo = dil
		k := 1 + rng.Intn(9)
		mono := rng.Chance(55)
		var cur verifC36Op
		cur.b = c.wb0
		for j := 0; j < k; j++ {
			var op verifC36Op
			if mono {
				// advance like a node does: a few rounds at a time (round = batch*dil + offset)
				r := cur.b*dil + cur.o + uint64(rng.Intn(int(2*dil)+2))
				op.b, op.o = r/dil, r%dil
				cur = op
			} else {
				op.b = c.wb0 + uint64(rng.Intn(int(c.wb1-c.wb0)+2))
				op.o = uint64(rng.Intn(int(dil) + 2)) // includes offsets ≥ dilution
			}
			op.nk = dil
			if rng.Chance(8) {
				op.nk = uint64(rng.Intn(int(dil) + 3)) // a call with a different numKeysPerBatch
			}
			c.ops = append(c.ops, op)
			// one line per prefix: the state after every deletion is observed
			lines = append(lines, c.line())
		}
	}
	return lines
}

func verifC36Directed() []string {
	max := ^uint64(0)
	var l []string
	add := func(c verifC36Case) {
		for i := 1; i <= len(c.ops); i++ {
			cc := c
			cc.ops = c.ops[:i]
			l = append(l, cc.line())
		}
	}
	// uint64 wrap of current.Batch+1: (2^64-1)+1 == FirstBatch == 0 is treated as "same batch"
	add(verifC36Case{start: 0, n: 2, wb0: 0, wb1: 2, wo: 2, adv: true, ops: []verifC36Op{{max, 0, 2}, {max, 5, 2}, {0, 1, 2}, {max, 0, 2}}})
	add(verifC36Case{start: 1, n: 2, wb0: 0, wb1: 3, wo: 2, adv: true, ops: []verifC36Op{{max, 0, 2}, {1, 1, 2}, {max, 1, 2}}})
	add(verifC36Case{start: 0, n: 2, wb0: max - 1, wb1: max, wo: 1, adv: true, ops: []verifC36Op{{max - 1, 0, 2}}})
	// keys whose batch numbers wrap around 2^64
	add(verifC36Case{start: max - 1, n: 3, wb0: max - 2, wb1: max, wo: 2, adv: true, ops: []verifC36Op{{max - 1, 1, 2}, {max, 0, 2}, {max, 1, 2}}})
	add(verifC36Case{start: max - 1, n: 3, wb0: 0, wb1: 1, wo: 2, adv: true, ops: []verifC36Op{{max - 1, 1, 2}, {max, 1, 2}, {0, 0, 2}}})
	// no batches at all; zero numKeysPerBatch; huge offsets
	add(verifC36Case{start: 3, n: 0, wb0: 2, wb1: 4, wo: 1, adv: true, ops: []verifC36Op{{3, 0, 2}, {4, 0, 2}, {9, 0, 2}}})
	add(verifC36Case{start: 1, n: 2, wb0: 0, wb1: 3, wo: 2, adv: true, ops: []verifC36Op{{1, 0, 0}, {1, 1, 2}, {2, max, 2}, {2, 0, 9}}})
	add(verifC36Case{start: 1, n: 3, wb0: 0, wb1: 4, wo: 3, adv: true, ops: []verifC36Op{{1, 1, 3}, {1, max, 3}, {2, 2, 3}, {2, 1, 3}, {1, 0, 3}, {3, 3, 3}, {4, 0, 3}, {5, 0, 3}, {6, 0, 3}, {1, 0, 3}}})
	return l
}

func verifC36Workers() int {
	if w := os.Getenv("VERIF_C36_WORKERS"); w != "" {
		return int(vh.U(w))
	}
	return 12
}

// verifC36ExecAll runs independent case lines on a worker pool; results keep the order of the lines.
func verifC36ExecAll(lines []string, seed uint64) []string {
	res := make([]string, len(lines))
	var wg sync.WaitGroup
	var mu sync.Mutex
	next := 0
	for w := 0; w < verifC36Workers(); w++ {
		wg.Add(1)
		go func(w int) {
			defer wg.Done()
			rng := &verifC36Rng{vh.NewRng(seed*7919 + uint64(w))}
			for {
				mu.Lock()
				i := next
				next++
				mu.Unlock()
				if i >= len(lines) {
					return
				}
				res[i] = verifC36Exec(lines[i], rng)
			}
		}(w)
	}
	wg.Wait()
	return res
}

func TestVerifC36(t *testing.T) {
	// Sign logs a warning for every out-of-range identifier: millions of lines here
	logging.Base().SetOutput(io.Discard)
	logging.Base().SetLevel(logging.Panic)
	out := vh.Open("c36")
	defer out.Close()
	rng := &verifC36Rng{vh.NewRng(vh.Seed() + 99)}
	if ops, replay := vh.ReplayOps(); replay {
		for _, op := range ops {
			out.Emit(op, verifC36Exec(op, rng))
		}
		return
	}
	t0 := time.Now()
	phase := func(name string) {
		fmt.Printf("c36 phase %s done at %.1fs (%d lines)\n", name, time.Since(t0).Seconds(), out.N)
	}
	for _, op := range verifC36Directed() {
		out.Emit(op, verifC36Exec(op, rng))
	}
	phase("directed")
	// exhaustive: 3 batches × dilution 3 (plus one identifier before and two after the key's range)
	if vh.Thorough() {
		verifC36Exhaustive(out, 1, 3, 3, 6, 4)
		verifC36Exhaustive(out, 0, 2, 2, 6, 4)
	} else {
		d := 5
		if s := vh.Budget(100, 100); s >= 1000 {
			d = 6 // proof or tie broke: search deeper
		}
		verifC36Exhaustive(out, 1, 3, 3, d, 3)
		verifC36Exhaustive(out, 0, 2, 2, d, 3)
	}
	phase("exhaustive")
	rl := verifC36Random(vh.NewRng(vh.Seed()), vh.Budget(600, 6000))
	for i, r := range verifC36ExecAll(rl, vh.Seed()) {
		out.Emit(rl[i], r)
	}
	phase("random")
}
