//go:build verif

package stateproof

// C39 correspondence harness: real participants with real Merkle-signature keys (deterministic Falcon keys, the
// real merklesignature.Signer.SignBytes / Verifier.VerifyBytes), the real Prover (IsValid, Add, CreateProof), the real
// Verifier.Verify, on generated participant sets / signing subsets around the proven-weight threshold, and
// single-field mutations of the valid proofs.
//
// Every op line is self-contained (the executor rebuilds the case from it) and carries the SYMBOLIC ground truth the
// model needs to replay the decision: who signed (key ids), weights, and the coins drawn by the REAL coin generator.
//
//   sp msg=<m> rnd=<r> pw=<provenWeight> lnpw=<LnIntApproximation(pw)> st=<strength> life=<keyLifetime>
//      parts=<w>:<keyid>,...  signers=<pos>,...  coins=<c>,...|-  mut=<name>[:a[:b]]  mcoins=<c>,...|-
//
//   coins  = the first nr+2 coins of the real generator for the prover's seed (nr = numReveals); "-" when CreateProof fails
//   mcoins = the coins of the real generator for the seed the VERIFIER derives from the mutated inputs, "-" when that seed
//            is the prover's seed (then coins applies) or signedWeight' = 0
//
// result:  create=err:<class>
//          create=ok sw=<signedWeight> nr=<n> pos=<p>,... rev=<p>:<L>:<w>,... depth=<sig tree>:<part tree> coins=ok|bad verify=<verdict>   (mut=none)
//          create=ok coins=ok|bad verify=<verdict>                                                        (mutations)
//   verdict = ok | err:<class>, class ∈ treedepth toomany zero insufficient salt sig vc noreveal coinrange
//   ("sig" = buildCommittableSignature failed or the signature does not verify; "vc" = either vector-commitment check)
import (
	"encoding/binary"
	"errors"
	"fmt"
	"math/bits"
	"sort"
	"strconv"
	"strings"
	"testing"

	"github.com/algorand/go-algorand/crypto"
	"github.com/algorand/go-algorand/crypto/merklearray"
	"github.com/algorand/go-algorand/crypto/merklesignature"
	"github.com/algorand/go-algorand/data/basics"
	"github.com/algorand/go-algorand/protocol"
	"github.com/algorand/go-algorand/zz_verif_tools/vh"
)

// ------------------------------------------------------------------------------------ deterministic real keys

const verifC39NumKeyRounds = 3 // every key id holds keys for rounds life, 2·life, 3·life

// verifC39KeyArr is the array merklesignature.New commits to (committablePublicKeyArray is unexported there):
// position i ↦ CommittablePublicKey{key i, round firstValid + i·lifetime} with firstValid a multiple of lifetime.
type verifC39KeyArr struct {
	keys []crypto.FalconSigner
	life uint64
}

func (a *verifC39KeyArr) Length() uint64 { return uint64(len(a.keys)) }
func (a *verifC39KeyArr) Marshal(pos uint64) (crypto.Hashable, error) {
	if pos >= uint64(len(a.keys)) {
		return nil, fmt.Errorf("pos %d past end", pos)
	}
	return &merklesignature.CommittablePublicKey{VerifyingKey: *a.keys[pos].GetVerifyingKey(), Round: a.life + pos*a.life}, nil
}

type verifC39KeySet struct {
	keys []crypto.FalconSigner
	ctx  merklesignature.SignerContext
	ver  merklesignature.Verifier
}

var verifC39KeySets = map[[2]uint64]*verifC39KeySet{}

// verifC39KeyOf builds (once) the Merkle-signature key set of key id `id`: Falcon keys from seeds derived from the id
// alone (merklesignature.New draws them from crypto/rand, which would make op lines irreproducible), committed with the
// real vector-commitment builder exactly as merklesignature.New does.
func verifC39KeyOf(id, life uint64) *verifC39KeySet {
	if ks, ok := verifC39KeySets[[2]uint64{id, life}]; ok {
		return ks
	}
	arr := &verifC39KeyArr{life: life}
	for i := 0; i < verifC39NumKeyRounds; i++ {
		var seed crypto.FalconSeed
		binary.LittleEndian.PutUint64(seed[0:], 0xC39C39)
		binary.LittleEndian.PutUint64(seed[8:], id)
		binary.LittleEndian.PutUint64(seed[16:], uint64(i))
		binary.LittleEndian.PutUint64(seed[24:], life)
		k, err := crypto.GenerateFalconSigner(seed)
		if err != nil {
			panic(err)
		}
		arr.keys = append(arr.keys, k)
	}
	tree, err := merklearray.BuildVectorCommitmentTree(arr, crypto.HashFactory{HashType: merklesignature.MerkleSignatureSchemeHashFunction})
	if err != nil {
		panic(err)
	}
	ks := &verifC39KeySet{keys: arr.keys, ctx: merklesignature.SignerContext{FirstValid: life, KeyLifetime: life, Tree: *tree}}
	ks.ver = *ks.ctx.GetVerifier()
	verifC39KeySets[[2]uint64{id, life}] = ks
	return ks
}

var verifC39SigCache = map[string]merklesignature.Signature{}

// verifC39Sign: the real Signer.SignBytes of key `id` for the key period containing `round`, on message `msg`.
func verifC39Sign(id, life, round, msg uint64) merklesignature.Signature {
	return verifC39SignData(id, life, round, verifC39Data(msg))
}

func verifC39SignData(id, life, round uint64, data MessageHash) merklesignature.Signature {
	period := round / life
	ck := fmt.Sprintf("%d/%d/%d/%x", id, life, period, data[:])
	if s, ok := verifC39SigCache[ck]; ok {
		return verifC39CopySig(s)
	}
	ks := verifC39KeyOf(id, life)
	if period < 1 || period > verifC39NumKeyRounds {
		panic("round outside the key periods")
	}
	signer := merklesignature.Signer{SigningKey: &ks.keys[period-1], Round: round, SignerContext: ks.ctx}
	sig, err := signer.SignBytes(data[:])
	if err != nil {
		panic(err)
	}
	verifC39SigCache[ck] = sig
	return verifC39CopySig(sig)
}

func verifC39CopySig(s merklesignature.Signature) merklesignature.Signature {
	var out merklesignature.Signature
	if err := protocol.Decode(protocol.Encode(&s), &out); err != nil {
		panic(err)
	}
	return out
}

func verifC39Data(msg uint64) MessageHash {
	var d MessageHash
	for i := 0; i < 4; i++ {
		binary.LittleEndian.PutUint64(d[8*i:], msg*0x9E3779B97F4A7C15+uint64(i)*0x1234567+msg)
	}
	return d
}

// ------------------------------------------------------------------------------------ op lines

type verifC39Op struct {
	msg, rnd, pw, lnpw, st, life uint64
	weights, keys, signers       []uint64
	coins, mcoins                string
	mut                          []string
	caseKey                      string
	dataOverride                 *MessageHash // ledger ops: the signed message is stateproofmsg.Message.Hash()
}

func (o *verifC39Op) data() MessageHash {
	if o.dataOverride != nil {
		return *o.dataOverride
	}
	return verifC39Data(o.msg)
}

func verifC39List(s string) []uint64 {
	if s == "" || s == "-" {
		return nil
	}
	var out []uint64
	for _, x := range strings.Split(s, ",") {
		out = append(out, vh.U(x))
	}
	return out
}

func verifC39Join(xs []uint64) string {
	if len(xs) == 0 {
		return "-"
	}
	ss := make([]string, len(xs))
	for i, x := range xs {
		ss[i] = strconv.FormatUint(x, 10)
	}
	return strings.Join(ss, ",")
}

func verifC39Parse(line string) verifC39Op {
	var o verifC39Op
	f := strings.Fields(line)
	if len(f) == 0 || (f[0] != "sp" && f[0] != "vsp") {
		panic("bad op")
	}
	var ck []string
	for _, kv := range f[1:] {
		i := strings.IndexByte(kv, '=')
		k, v := kv[:i], kv[i+1:]
		switch k {
		case "msg":
			o.msg = vh.U(v)
		case "rnd":
			o.rnd = vh.U(v)
		case "pw":
			o.pw = vh.U(v)
		case "lnpw":
			o.lnpw = vh.U(v)
		case "st":
			o.st = vh.U(v)
		case "life":
			o.life = vh.U(v)
		case "parts":
			for _, p := range strings.Split(v, ",") {
				wk := strings.Split(p, ":")
				o.weights = append(o.weights, vh.U(wk[0]))
				o.keys = append(o.keys, vh.U(wk[1]))
			}
		case "signers":
			o.signers = verifC39List(v)
		case "coins":
			o.coins = v
		case "mcoins":
			o.mcoins = v
		case "mut":
			o.mut = strings.Split(v, ":")
		}
		switch k {
		case "coins", "mcoins", "mut", "total", "thr", "ivl", "last", "at", "vmsg", "vlnpw": // not part of the case
		default:
			ck = append(ck, kv)
		}
	}
	o.caseKey = strings.Join(ck, " ")
	return o
}

func (o *verifC39Op) caseLine() string {
	ps := make([]string, len(o.weights))
	for i := range ps {
		ps[i] = fmt.Sprintf("%d:%d", o.weights[i], o.keys[i])
	}
	return fmt.Sprintf("sp msg=%d rnd=%d pw=%d lnpw=%d st=%d life=%d parts=%s signers=%s",
		o.msg, o.rnd, o.pw, o.lnpw, o.st, o.life, strings.Join(ps, ","), verifC39Join(o.signers))
}

// ------------------------------------------------------------------------------------ the case on the real code

type verifC39Case struct {
	key       string
	parts     []basics.Participant
	partcom   *merklearray.Tree
	prover    *Prover
	proof     *StateProof
	createErr string
	lnOK      bool
}

func verifC39ErrClass(err error) string {
	switch {
	case err == nil:
		return "ok"
	case errors.Is(err, ErrTreeDepthTooLarge):
		return "err:treedepth"
	case errors.Is(err, ErrTooManyReveals):
		return "err:toomany"
	case errors.Is(err, ErrZeroSignedWeight):
		return "err:zero"
	case errors.Is(err, ErrInsufficientSignedWeight):
		return "err:insufficient"
	case errors.Is(err, ErrNegativeNumOfRevealsEquation):
		return "err:negative"
	case errors.Is(err, ErrSignedWeightLessThanProvenWeight):
		return "err:notready"
	case errors.Is(err, ErrIllegalInputForLnApprox):
		return "err:lnzero"
	case errors.Is(err, merklesignature.ErrSignatureSaltVersionMismatch):
		return "err:salt"
	case errors.Is(err, ErrNoRevealInPos):
		return "err:noreveal"
	case errors.Is(err, ErrCoinNotInRange):
		return "err:coinrange"
	case errors.Is(err, ErrCoinIndexError):
		return "err:coinindex"
	case errors.Is(err, ErrPositionOutOfBound):
		return "err:posbound"
	case strings.HasPrefix(err.Error(), "signature in reveal pos"):
		return "err:sig"
	case errors.Is(err, merklearray.ErrRootMismatch), errors.Is(err, merklearray.ErrPosOutOfBound),
		errors.Is(err, merklearray.ErrUnexpectedTreeDepth), errors.Is(err, merklearray.ErrNonEmptyProofForEmptyElements),
		errors.Is(err, merklearray.ErrProofLengthDigestSizeMismatch), errors.Is(err, merklearray.ErrProvingZeroCommitment),
		strings.Contains(err.Error(), "no more sibling hints"), strings.Contains(err.Error(), "hints"):
		return "err:vc"
	}
	return "err:other(" + err.Error() + ")"
}

var verifC39Last *verifC39Case

func verifC39Build(o *verifC39Op) *verifC39Case {
	if verifC39Last != nil && verifC39Last.key == o.caseKey {
		return verifC39Last
	}
	c := &verifC39Case{key: o.caseKey}
	verifC39Last = c
	for i := range o.weights {
		c.parts = append(c.parts, basics.Participant{PK: verifC39KeyOf(o.keys[i], o.life).ver, Weight: o.weights[i]})
	}
	var err error
	c.partcom, err = merklearray.BuildVectorCommitmentTree(basics.ParticipantsArray(c.parts), crypto.HashFactory{HashType: HashType})
	if err != nil {
		c.createErr = "err:partcom"
		return c
	}
	data := o.data()
	c.prover, err = MakeProver(data, o.rnd, o.pw, c.parts, c.partcom, o.st)
	if err != nil {
		c.createErr = verifC39ErrClass(err)
		return c
	}
	c.lnOK = c.prover.LnProvenWeight == o.lnpw
	for _, p := range o.signers {
		sig := verifC39SignData(o.keys[p], o.life, o.rnd, data)
		if err := c.prover.IsValid(p, &sig, true); err != nil {
			c.createErr = "err:isvalid(" + err.Error() + ")"
			return c
		}
		if err := c.prover.Add(p, sig); err != nil {
			c.createErr = "err:add(" + err.Error() + ")"
			return c
		}
	}
	c.proof, err = c.prover.CreateProof()
	if err != nil {
		c.createErr = verifC39ErrClass(err)
		c.proof = nil
	}
	return c
}

// verifC39Coins: n coins of the real generator for the given seed fields.
func verifC39Coins(partcom crypto.GenericDigest, lnpw uint64, sigcom crypto.GenericDigest, sw uint64, data MessageHash, n int) []uint64 {
	if sw == 0 {
		return nil
	}
	choice := coinChoiceSeed{partCommitment: partcom, lnProvenWeight: lnpw, sigCommitment: sigcom, signedWeight: sw, data: data}
	cg := makeCoinGenerator(&choice)
	out := make([]uint64, n)
	for i := range out {
		out[i] = cg.getNextCoin()
	}
	return out
}

func verifC39CopyProof(s *StateProof) *StateProof {
	var out StateProof
	if err := protocol.Decode(protocol.Encode(s), &out); err != nil {
		panic(err)
	}
	return &out
}

// verifC39Mutated applies the single-field mutation to a deep copy of the valid proof and returns the verifier inputs.
type verifC39VerifyIn struct {
	sp      *StateProof
	partcom crypto.GenericDigest
	round   uint64
	data    MessageHash
}

func verifC39Apply(o *verifC39Op, c *verifC39Case) verifC39VerifyIn {
	in := verifC39VerifyIn{sp: verifC39CopyProof(c.proof), partcom: append(crypto.GenericDigest{}, c.partcom.Root()...), round: o.rnd, data: verifC39Data(o.msg)}
	sp := in.sp
	m := o.mut
	arg := func(i int) uint64 { return vh.U(m[i]) }
	rev := func(p uint64) Reveal {
		r, ok := sp.Reveals[p]
		if !ok {
			panic("mutation names a position that is not revealed")
		}
		return r
	}
	switch m[0] {
	case "none":
	case "msg":
		in.data = verifC39Data(arg(1))
	case "round":
		in.round = arg(1)
	case "siggarble": // flip one byte of the reveal's Merkle signature: falcon bytes / verifying key / vc index / key proof
		r := rev(arg(1))
		switch m[2] {
		case "falcon":
			b := append([]byte{}, r.SigSlot.Sig.Signature...)
			b[2+int(arg(3))%(len(b)-2)] ^= 0x10
			r.SigSlot.Sig.Signature = b
		case "vkey":
			r.SigSlot.Sig.VerifyingKey.PublicKey[1+int(arg(3))%(len(r.SigSlot.Sig.VerifyingKey.PublicKey)-1)] ^= 0x04
		case "idx":
			r.SigSlot.Sig.VectorCommitmentIndex ^= 1
		case "proof":
			pth := make([]crypto.GenericDigest, len(r.SigSlot.Sig.Proof.Path))
			for i := range pth {
				pth[i] = append(crypto.GenericDigest{}, r.SigSlot.Sig.Proof.Path[i]...)
			}
			pth[0][int(arg(3))%len(pth[0])] ^= 0x01
			r.SigSlot.Sig.Proof.Path = pth
		default:
			panic("bad siggarble")
		}
		sp.Reveals[arg(1)] = r
	case "sigsalt": // the salt-version byte of the Falcon signature
		r := rev(arg(1))
		b := append([]byte{}, r.SigSlot.Sig.Signature...)
		b[1] = byte(arg(2))
		r.SigSlot.Sig.Signature = b
		sp.Reveals[arg(1)] = r
	case "sigempty":
		r := rev(arg(1))
		r.SigSlot.Sig = merklesignature.Signature{}
		sp.Reveals[arg(1)] = r
	case "sigof": // a VALID signature of key a2 for round a3 on message a4 put into the reveal
		r := rev(arg(1))
		r.SigSlot.Sig = verifC39Sign(arg(2), o.life, arg(3), arg(4))
		sp.Reveals[arg(1)] = r
	case "L":
		r := rev(arg(1))
		r.SigSlot.L = arg(2)
		sp.Reveals[arg(1)] = r
	case "swap":
		a, b := rev(arg(1)), rev(arg(2))
		sp.Reveals[arg(1)], sp.Reveals[arg(2)] = b, a
	case "w":
		r := rev(arg(1))
		r.Part.Weight = arg(2)
		sp.Reveals[arg(1)] = r
	case "pk":
		r := rev(arg(1))
		r.Part.PK = verifC39KeyOf(arg(2), o.life).ver
		sp.Reveals[arg(1)] = r
	case "life":
		r := rev(arg(1))
		r.Part.PK.KeyLifetime = arg(2)
		sp.Reveals[arg(1)] = r
	case "sw":
		sp.SignedWeight = arg(1)
	case "sigcommit":
		sp.SigCommit[int(arg(1))%len(sp.SigCommit)] ^= 0x20
	case "partcom":
		in.partcom[int(arg(1))%len(in.partcom)] ^= 0x20
	case "sigpath":
		sp.SigProofs.Path[0][int(arg(1))%len(sp.SigProofs.Path[0])] ^= 0x02
	case "partpath":
		sp.PartProofs.Path[0][int(arg(1))%len(sp.PartProofs.Path[0])] ^= 0x02
	case "sigdepth":
		sp.SigProofs.TreeDepth = uint8(arg(1))
	case "partdepth":
		sp.PartProofs.TreeDepth = uint8(arg(1))
	case "posset":
		sp.PositionsToReveal[arg(1)] = arg(2)
	case "posdrop":
		sp.PositionsToReveal = sp.PositionsToReveal[:len(sp.PositionsToReveal)-1]
	case "posadd":
		sp.PositionsToReveal = append(sp.PositionsToReveal, arg(1))
	case "posswap":
		sp.PositionsToReveal[arg(1)], sp.PositionsToReveal[arg(2)] = sp.PositionsToReveal[arg(2)], sp.PositionsToReveal[arg(1)]
	case "salt":
		sp.MerkleSignatureSaltVersion = byte(arg(1))
	case "revdel":
		rev(arg(1))
		delete(sp.Reveals, arg(1))
	case "revadd": // the correct (committed) reveal of a position the proof does not reveal
		p := arg(1)
		if _, ok := sp.Reveals[p]; ok {
			panic("revadd of a revealed position")
		}
		sp.Reveals[p] = Reveal{SigSlot: c.prover.sigs[p].sigslotCommit, Part: c.parts[p]}
	case "revmove":
		r := rev(arg(1))
		if _, ok := sp.Reveals[arg(2)]; ok {
			panic("revmove onto a revealed position")
		}
		delete(sp.Reveals, arg(1))
		sp.Reveals[arg(2)] = r
	default:
		panic("unknown mutation " + m[0])
	}
	return in
}

// verifC39MCoins: "-" when the verifier's coin seed is the prover's (same commitments, signed weight, message), else the
// coins the real generator yields for the verifier's seed (as many as the mutated positions list needs, plus two).
func verifC39MCoins(c *verifC39Case, in *verifC39VerifyIn, lnpw uint64) string {
	sp := c.proof
	same := string(in.partcom) == string(c.partcom.Root()) && string(in.sp.SigCommit) == string(sp.SigCommit) &&
		in.sp.SignedWeight == sp.SignedWeight && in.data == c.prover.Data && lnpw == c.prover.LnProvenWeight
	if same || in.sp.SignedWeight == 0 {
		return "-"
	}
	return verifC39Join(verifC39Coins(in.partcom, lnpw, in.sp.SigCommit, in.sp.SignedWeight, in.data, len(in.sp.PositionsToReveal)+2))
}

func verifC39Exec(line string) string {
	res := vh.Catch(func() string {
		if strings.HasPrefix(line, "fg ") {
			return verifC39ExecForge(line)
		}
		o := verifC39Parse(line)
		c := verifC39Build(&o)
		if c.createErr != "" {
			return "create=" + c.createErr
		}
		if !c.lnOK {
			return "create=ok ln=bad"
		}
		sp := c.proof
		nr := len(sp.PositionsToReveal)
		data := verifC39Data(o.msg)
		coins := verifC39Coins(c.partcom.Root(), c.prover.LnProvenWeight, sp.SigCommit, sp.SignedWeight, data, nr+2)
		coinsOK := "ok"
		if verifC39Join(coins) != o.coins {
			coinsOK = "bad"
		}
		in := verifC39Apply(&o, c)
		v, err := MkVerifier(in.partcom, o.pw, o.st)
		if err != nil {
			return "create=ok mkverifier=" + verifC39ErrClass(err)
		}
		// ground truth for the model: the coins of the seed the verifier derives from the (mutated) inputs
		if verifC39MCoins(c, &in, v.lnProvenWeight) != o.mcoins {
			coinsOK = "bad"
		}
		verr := v.Verify(basics.Round(in.round), in.data, in.sp)
		verdict := verifC39ErrClass(verr)
		if strings.HasPrefix(verdict, "err:other") {
			// an error of buildCommittableSignature (it is returned unwrapped): recognised by re-running that function
			for _, r := range in.sp.Reveals {
				if _, e := buildCommittableSignature(r.SigSlot); e != nil && e.Error() == verr.Error() {
					verdict = "err:sig"
				}
			}
		}
		if o.mut[0] != "none" {
			return fmt.Sprintf("create=ok coins=%s verify=%s", coinsOK, verdict)
		}
		var keys []uint64
		for p := range sp.Reveals {
			keys = append(keys, p)
		}
		sort.Slice(keys, func(i, j int) bool { return keys[i] < keys[j] })
		revs := make([]string, len(keys))
		for i, p := range keys {
			revs[i] = fmt.Sprintf("%d:%d:%d", p, sp.Reveals[p].SigSlot.L, sp.Reveals[p].Part.Weight)
		}
		rv := strings.Join(revs, ",")
		if rv == "" {
			rv = "-"
		}
		return fmt.Sprintf("create=ok sw=%d nr=%d pos=%s rev=%s depth=%d:%d coins=%s verify=%s", sp.SignedWeight, nr, verifC39Join(sp.PositionsToReveal), rv,
			sp.SigProofs.TreeDepth, sp.PartProofs.TreeDepth, coinsOK, verdict)
	})
	if strings.HasPrefix(res, "PANIC") {
		return "PANIC"
	}
	return res
}

// ------------------------------------------------------------------------------------ generator

const verifC39NumKeyIDs = 6

// verifC39GenCase draws one participant set / signing subset / proven weight / strength.
func verifC39GenCase(rng *vh.Rng, idx int) verifC39Op {
	o := verifC39Op{life: 16}
	o.msg = uint64(1 + rng.Intn(3))
	o.rnd = 16*uint64(1+rng.Intn(verifC39NumKeyRounds)) + uint64(rng.Intn(16))
	var n int
	switch rng.Intn(5) {
	case 0:
		n = 1 + rng.Intn(3)
	case 1:
		n = 16 + rng.Intn(17) // around a power of two: padded and unpadded vector commitments
	default:
		n = 2 + rng.Intn(14)
	}
	style := rng.Intn(4) // 0: tiny weights (coins land on slot boundaries), 1: realistic stake, 2: mixed incl. zero weights, 3: one whale
	for i := 0; i < n; i++ {
		var w uint64
		switch style {
		case 0:
			w = uint64(1 + rng.Intn(3))
		case 1:
			w = 1000000 * uint64(1+rng.Intn(5000000))
		case 2:
			switch rng.Intn(4) {
			case 0:
				w = 0
			case 1:
				w = uint64(1 + rng.Intn(4))
			default:
				w = uint64(1 + rng.Intn(100000))
			}
		default:
			w = uint64(1 + rng.Intn(50))
			if i == n/2 {
				w = 1 << 40
			}
		}
		o.weights = append(o.weights, w)
		o.keys = append(o.keys, uint64(rng.Intn(verifC39NumKeyIDs)))
	}
	// signing subset: each positive-weight participant signs with probability q; at least one signer when possible
	q := []int{35, 60, 85, 100}[rng.Intn(4)]
	var total uint64
	for i := 0; i < n; i++ {
		total += o.weights[i]
	}
	perm := make([]int, n)
	for i := range perm {
		perm[i] = i
	}
	for i := n - 1; i > 0; i-- {
		j := rng.Intn(i + 1)
		perm[i], perm[j] = perm[j], perm[i]
	}
	var sw uint64
	for _, i := range perm {
		if o.weights[i] > 0 && rng.Chance(q) {
			o.signers = append(o.signers, uint64(i))
			sw += o.weights[i]
		}
	}
	if len(o.signers) == 0 {
		for _, i := range perm {
			if o.weights[i] > 0 {
				o.signers = append(o.signers, uint64(i))
				sw += o.weights[i]
				break
			}
		}
	}
	// proven weight relative to the signed weight: just below / at / just above the threshold, and comfortable margins
	switch rng.Intn(20) {
	case 0:
		o.pw = sw // not ready: signed weight must EXCEED the proven weight
	case 1:
		o.pw = sw + 1 + uint64(rng.Intn(3))
	case 2:
		if sw > 1 {
			o.pw = sw - 1 // ready, but the reveal equation has no (or a huge) solution
		} else {
			o.pw = 1
		}
	case 3:
		o.pw = sw - sw/8
	case 4:
		o.pw = 0 // ln(0) rejected by MakeProver
	case 5, 6, 7, 8, 9:
		o.pw = sw/2 + 1
	case 10, 11:
		o.pw = sw/4 + 1
	case 12, 13:
		o.pw = sw - sw/3 // just above the threshold: many reveals
	default:
		o.pw = sw/uint64(3+rng.Intn(200)) + 1
	}
	o.st = []uint64{0, 1, 4, 8, 16, 32, 32, 64, 64, 128, 256}[rng.Intn(11)]
	if idx%7 == 0 {
		o.st = 256 // the deployed strength target
	}
	if o.pw > 0 {
		o.lnpw, _ = LnIntApproximation(o.pw)
	}
	return o
}

// verifC39GenMutations lists the single-field mutations of the case's valid proof (ground truth from the real prover state).
func verifC39GenMutations(rng *vh.Rng, o *verifC39Op, c *verifC39Case, coins []uint64) [][]string {
	sp := c.proof
	var revealed []uint64
	for p := range sp.Reveals {
		revealed = append(revealed, p)
	}
	sort.Slice(revealed, func(i, j int) bool { return revealed[i] < revealed[j] })
	isRev := map[uint64]bool{}
	for _, p := range revealed {
		isRev[p] = true
	}
	var unrevealedSigners, unrevealedAny []uint64
	for _, p := range o.signers {
		if !isRev[p] {
			unrevealedSigners = append(unrevealedSigners, p)
		}
	}
	for p := range o.weights {
		if !isRev[uint64(p)] {
			unrevealedAny = append(unrevealedAny, uint64(p))
		}
	}
	sort.Slice(unrevealedSigners, func(i, j int) bool { return unrevealedSigners[i] < unrevealedSigners[j] })
	pick := func(xs []uint64) uint64 { return xs[rng.Intn(len(xs))] }
	u := func(x uint64) string { return strconv.FormatUint(x, 10) }
	nr := uint64(len(sp.PositionsToReveal))
	var ms [][]string
	add := func(a ...string) { ms = append(ms, a) }
	if len(revealed) == 0 {
		// strength target 0: no reveals at all; the only fields left to tamper with
		add("msg", u(o.msg%3+1))
		add("sw", u(sp.SignedWeight+1))
		add("sw", "0")
		add("sigcommit", "3")
		add("salt", "1")
		add("sigdepth", "21")
		if len(o.signers) > 0 {
			add("posadd", u(o.signers[0]))
		}
		return ms
	}
	otherPeriod := o.rnd + o.life
	if o.rnd/o.life >= verifC39NumKeyRounds {
		otherPeriod = o.rnd - o.life
	}
	samePeriod := o.rnd ^ 1
	// message and round
	add("msg", u(o.msg%3+1))
	add("round", u(otherPeriod))
	add("round", u(samePeriod)) // NOT a tamper the verifier can see: same Merkle-signature key period
	add("round", u(o.rnd%o.life))
	// signatures
	p := pick(revealed)
	add("siggarble", u(p), "falcon", u(uint64(rng.Intn(4000))))
	add("siggarble", u(pick(revealed)), "vkey", u(uint64(rng.Intn(4000))))
	add("siggarble", u(pick(revealed)), "idx", "0")
	add("siggarble", u(pick(revealed)), "proof", u(uint64(rng.Intn(64))))
	add("sigsalt", u(pick(revealed)), u(uint64(1+rng.Intn(255))))
	add("sigempty", u(pick(revealed)))
	p = pick(revealed)
	add("sigof", u(p), u((o.keys[p]+1+uint64(rng.Intn(verifC39NumKeyIDs-1)))%verifC39NumKeyIDs), u(o.rnd), u(o.msg)) // another key
	p = pick(revealed)
	add("sigof", u(p), u(o.keys[p]), u(o.rnd), u(o.msg%3+1)) // same key, another message
	p = pick(revealed)
	add("sigof", u(p), u(o.keys[p]), u(otherPeriod), u(o.msg)) // same key, another key period
	// slot fields
	p = pick(revealed)
	add("L", u(p), u(sp.Reveals[p].SigSlot.L+1))
	if sp.Reveals[p].SigSlot.L > 0 {
		add("L", u(p), u(sp.Reveals[p].SigSlot.L-1))
	}
	if len(revealed) >= 2 {
		a := rng.Intn(len(revealed))
		b := (a + 1 + rng.Intn(len(revealed)-1)) % len(revealed)
		add("swap", u(revealed[a]), u(revealed[b]))
	}
	// participant fields
	p = pick(revealed)
	add("w", u(p), u(sp.Reveals[p].Part.Weight+1))
	add("w", u(p), u(sp.Reveals[p].Part.Weight-1))
	p = pick(revealed)
	add("w", u(p), u(sp.Reveals[p].Part.Weight*2+uint64(rng.Intn(1000))))
	p = pick(revealed)
	add("pk", u(p), u((o.keys[p]+1+uint64(rng.Intn(verifC39NumKeyIDs-1)))%verifC39NumKeyIDs))
	add("life", u(pick(revealed)), "0")
	add("life", u(pick(revealed)), u(o.life*2)) // may or may not change the key period of the round
	add("life", u(pick(revealed)), "1")
	// signed weight
	add("sw", u(sp.SignedWeight+1))
	add("sw", u(sp.SignedWeight-1))
	add("sw", u(sp.SignedWeight*2))
	add("sw", "0")
	if o.pw+1 != sp.SignedWeight {
		add("sw", u(o.pw+1))
	}
	// commitments and vector-commitment proofs
	add("sigcommit", u(uint64(rng.Intn(64))))
	add("partcom", u(uint64(rng.Intn(64))))
	if len(sp.SigProofs.Path) > 0 {
		add("sigpath", u(uint64(rng.Intn(64))))
	}
	if len(sp.PartProofs.Path) > 0 {
		add("partpath", u(uint64(rng.Intn(64))))
	}
	add("sigdepth", u(uint64(sp.SigProofs.TreeDepth)+1))
	add("partdepth", u(uint64(sp.PartProofs.TreeDepth)+1))
	add("sigdepth", "21")
	add("partdepth", "255")
	// positions list
	j := uint64(rng.Intn(int(nr)))
	if len(revealed) >= 2 {
		q := pick(revealed)
		for q == sp.PositionsToReveal[j] {
			q = pick(revealed)
		}
		add("posset", u(j), u(q))
	}
	if len(unrevealedAny) > 0 {
		add("posset", u(uint64(rng.Intn(int(nr)))), u(pick(unrevealedAny)))
	}
	add("posset", u(uint64(rng.Intn(int(nr)))), u(uint64(len(o.weights))+uint64(rng.Intn(3))))
	// directed: a coin sitting exactly on the lower end of its slot, re-pointed at the revealed slot that ENDS there
	for jj := uint64(0); jj < nr; jj++ {
		pp := sp.PositionsToReveal[jj]
		if coins[jj] != sp.Reveals[pp].SigSlot.L {
			continue
		}
		done := false
		for _, q := range revealed {
			if q != pp && sp.Reveals[q].SigSlot.L+sp.Reveals[q].Part.Weight == coins[jj] {
				add("posset", u(jj), u(q))
				done = true
				break
			}
		}
		if done {
			break
		}
	}
	// directed: a coin on the LAST unit of its slot, re-pointed at the revealed slot that starts right after
	for jj := uint64(0); jj < nr; jj++ {
		pp := sp.PositionsToReveal[jj]
		if coins[jj]+1 != sp.Reveals[pp].SigSlot.L+sp.Reveals[pp].Part.Weight {
			continue
		}
		done := false
		for _, q := range revealed {
			if q != pp && sp.Reveals[q].SigSlot.L == coins[jj]+1 {
				add("posset", u(jj), u(q))
				done = true
				break
			}
		}
		if done {
			break
		}
	}
	add("posdrop")
	if nr+1 <= MaxReveals {
		// the slot the NEXT coin of the same stream selects: a longer, still valid list when that slot is revealed
		if pos, err := c.prover.coinIndex(coins[nr]); err == nil {
			add("posadd", u(pos))
			for _, q := range revealed {
				if q != pos {
					add("posadd", u(q))
					break
				}
			}
		}
	}
	if nr >= 2 {
		a := uint64(rng.Intn(int(nr)))
		b := uint64(rng.Intn(int(nr)))
		if sp.PositionsToReveal[a] != sp.PositionsToReveal[b] {
			add("posswap", u(a), u(b))
		}
	}
	add("salt", u(uint64(1+rng.Intn(255))))
	// reveals map
	if len(revealed) >= 2 {
		add("revdel", u(pick(revealed)))
	}
	if len(unrevealedSigners) > 0 {
		add("revadd", u(pick(unrevealedSigners)))
	}
	if len(unrevealedAny) > 0 {
		add("revmove", u(pick(revealed)), u(pick(unrevealedAny)))
	}
	return ms
}

func verifC39Generate(emit func(op string)) {
	verifC39GenForge(vh.NewRng(VerifC39MixSeed(vh.Seed(), 0xF09)), emit)
	rng := vh.NewRng(VerifC39MixSeed(vh.Seed(), 0xC39))
	ncases := vh.Budget(70, 6000)
	for i := 0; i < ncases; i++ {
		o := verifC39GenCase(rng, i)
		o.caseKey = verifC39Parse(o.caseLine()).caseKey
		c := verifC39Build(&o)
		base := o.caseLine()
		if c.createErr != "" {
			emit(base + " coins=- mut=none mcoins=-")
			continue
		}
		sp := c.proof
		data := verifC39Data(o.msg)
		nr := len(sp.PositionsToReveal)
		coins := verifC39Coins(c.partcom.Root(), c.prover.LnProvenWeight, sp.SigCommit, sp.SignedWeight, data, nr+2)
		cs := verifC39Join(coins)
		emit(base + " coins=" + cs + " mut=none mcoins=-")
		for _, m := range verifC39GenMutations(rng, &o, c, coins) {
			o.mut = m
			mc := "-"
			func() {
				defer func() { recover() }()
				in := verifC39Apply(&o, c)
				v, err := MkVerifier(in.partcom, o.pw, o.st)
				if err != nil {
					return
				}
				mc = verifC39MCoins(c, &in, v.lnProvenWeight)
			}()
			emit(base + " coins=" + cs + " mut=" + strings.Join(m, ":") + " mcoins=" + mc)
		}
	}
}

// ------------------------------------------------------------------------------------ exported to package stateproof_test
//
// zz_verif_c39x_test.go (package stateproof_test) drives stateproof/verify.ValidateStateProof, which this package cannot
// import (cycle); it reaches the unexported coin generator and the case builder through these wrappers.

type VerifC39Built struct {
	Err      string // "" or the class of the CreateProof / MakeProver error
	Proof    *StateProof
	Partcom  crypto.GenericDigest
	LnPW, SW uint64
}

// VerifC39BuildLedger builds the case of an op line with the signed message hash given by the caller.
func VerifC39BuildLedger(line string, data MessageHash) VerifC39Built {
	o := verifC39Parse(line)
	o.dataOverride = &data
	o.caseKey += fmt.Sprintf(" data=%x", data[:])
	c := verifC39Build(&o)
	if c.createErr != "" {
		return VerifC39Built{Err: c.createErr}
	}
	if !c.lnOK {
		return VerifC39Built{Err: "err:lnmismatch"}
	}
	return VerifC39Built{Proof: verifC39CopyProof(c.proof), Partcom: append(crypto.GenericDigest{}, c.partcom.Root()...),
		LnPW: c.prover.LnProvenWeight, SW: c.proof.SignedWeight}
}

func VerifC39CoinsFor(partcom crypto.GenericDigest, lnpw uint64, sigcom crypto.GenericDigest, sw uint64, data MessageHash, n int) []uint64 {
	return verifC39Coins(partcom, lnpw, sigcom, sw, data, n)
}

func VerifC39Join(xs []uint64) string { return verifC39Join(xs) }

// VerifC39MixSeed scatters VERIF_SEED: vh.NewRng(k) and vh.NewRng(k+d) are the SAME splitmix stream shifted by d draws
// (they re-synchronise as soon as the generators have consumed d draws more/less), so nearby seeds must be mixed first.
func VerifC39MixSeed(seed, salt uint64) uint64 {
	z := (seed+1)*0xD6E8FEB86659FD93 ^ salt*0xA0761D6478BD642F
	z = (z ^ (z >> 32)) * 0xD6E8FEB86659FD93
	z = (z ^ (z >> 29)) * 0x94D049BB133111EB
	return z ^ (z >> 32)
}

// VerifC39GenLedgerCase: a case whose round is a multiple of the key lifetime and whose proven weight is the ledger's
// total·threshold/2^32 for `total` = the weight of ALL participants (+ extra).
func VerifC39GenLedgerCase(rng *vh.Rng, idx int, thr uint64) (string, uint64) {
	o := verifC39GenCase(rng, idx)
	o.rnd = o.life * uint64(1+rng.Intn(verifC39NumKeyRounds))
	var total uint64
	for _, w := range o.weights {
		total += w
	}
	if rng.Chance(20) {
		total += total / 4
	}
	hi, lo := bits.Mul64(total, thr)
	o.pw = hi<<32 | lo>>32
	o.lnpw = 0
	if o.pw > 0 {
		o.lnpw, _ = LnIntApproximation(o.pw)
	}
	return "v" + o.caseLine(), total
}

// ------------------------------------------------------------------------------------ forged proofs (built from scratch)
//
//   fg msg=<m> rnd=<r> pw=<provenWeight> lnpw=<ln> st=<strength> life=<l> parts=<w>:<keyid>,...
//      sigs=<pos>:<L>:<keyid>,...|-   the ATTACKER's signature array: occupied slots only, L chosen freely; the signature is
//                                     the real one of key <keyid> on (rnd, msg) — valid for the slot iff it is the participant's key
//      sw=<claimed SignedWeight> pos=<PositionsToReveal>|- rev=<revealed positions>|- coins=<coins of the real generator for
//      the verifier's seed, len(pos)+1 of them>|-
//   ⇒ coins=ok|bad verify=<verdict>
// SigCommit and both vector-commitment proofs are built honestly over the attacker's array (self-consistent commitments), so
// the only thing between the forgery and acceptance are the signature check and the coin-in-slot comparison.

type verifC39Forge struct {
	msg, rnd, pw, lnpw, st, life, sw uint64
	weights, keys                     []uint64
	sigPos, sigL, sigKey              []uint64
	pos, rev                          []uint64
	coins                             string
}

func (f *verifC39Forge) line(coins string) string {
	ps := make([]string, len(f.weights))
	for i := range ps {
		ps[i] = fmt.Sprintf("%d:%d", f.weights[i], f.keys[i])
	}
	ss := make([]string, len(f.sigPos))
	for i := range ss {
		ss[i] = fmt.Sprintf("%d:%d:%d", f.sigPos[i], f.sigL[i], f.sigKey[i])
	}
	sg := strings.Join(ss, ",")
	if sg == "" {
		sg = "-"
	}
	return fmt.Sprintf("fg msg=%d rnd=%d pw=%d lnpw=%d st=%d life=%d parts=%s sigs=%s sw=%d pos=%s rev=%s coins=%s",
		f.msg, f.rnd, f.pw, f.lnpw, f.st, f.life, strings.Join(ps, ","), sg, f.sw, verifC39Join(f.pos), verifC39Join(f.rev), coins)
}

func verifC39ParseForge(line string) verifC39Forge {
	var f verifC39Forge
	for _, kv := range strings.Fields(line)[1:] {
		i := strings.IndexByte(kv, '=')
		k, v := kv[:i], kv[i+1:]
		switch k {
		case "msg":
			f.msg = vh.U(v)
		case "rnd":
			f.rnd = vh.U(v)
		case "pw":
			f.pw = vh.U(v)
		case "lnpw":
			f.lnpw = vh.U(v)
		case "st":
			f.st = vh.U(v)
		case "life":
			f.life = vh.U(v)
		case "sw":
			f.sw = vh.U(v)
		case "parts":
			for _, p := range strings.Split(v, ",") {
				wk := strings.Split(p, ":")
				f.weights = append(f.weights, vh.U(wk[0]))
				f.keys = append(f.keys, vh.U(wk[1]))
			}
		case "sigs":
			if v != "-" {
				for _, p := range strings.Split(v, ",") {
					x := strings.Split(p, ":")
					f.sigPos = append(f.sigPos, vh.U(x[0]))
					f.sigL = append(f.sigL, vh.U(x[1]))
					f.sigKey = append(f.sigKey, vh.U(x[2]))
				}
			}
		case "pos":
			f.pos = verifC39List(v)
		case "rev":
			f.rev = verifC39List(v)
		case "coins":
			f.coins = v
		}
	}
	return f
}

type verifC39Forged struct {
	sp      *StateProof
	partcom crypto.GenericDigest
	data    MessageHash
}

// verifC39BuildForge: participants commitment, the attacker's signature array with its honest commitment, and the proof
// with everything but PositionsToReveal filled in.
func verifC39BuildForge(f *verifC39Forge) verifC39Forged {
	var parts []basics.Participant
	for i := range f.weights {
		parts = append(parts, basics.Participant{PK: verifC39KeyOf(f.keys[i], f.life).ver, Weight: f.weights[i]})
	}
	hf := crypto.HashFactory{HashType: HashType}
	partTree, err := merklearray.BuildVectorCommitmentTree(basics.ParticipantsArray(parts), hf)
	if err != nil {
		panic(err)
	}
	sigs := make([]sigslot, len(parts))
	for i, p := range f.sigPos {
		sigs[p] = sigslot{Weight: parts[p].Weight, sigslotCommit: sigslotCommit{Sig: verifC39Sign(f.sigKey[i], f.life, f.rnd, f.msg), L: f.sigL[i]}}
	}
	sigTree, err := merklearray.BuildVectorCommitmentTree(committableSignatureSlotArray(sigs), hf)
	if err != nil {
		panic(err)
	}
	sigProofs, err := sigTree.Prove(f.rev)
	if err != nil {
		panic(err)
	}
	partProofs, err := partTree.Prove(f.rev)
	if err != nil {
		panic(err)
	}
	sp := &StateProof{
		SigCommit:                  sigTree.Root(),
		SignedWeight:               f.sw,
		SigProofs:                  *sigProofs,
		PartProofs:                 *partProofs,
		MerkleSignatureSaltVersion: merklesignature.SchemeSaltVersion,
		Reveals:                    map[uint64]Reveal{},
		PositionsToReveal:          f.pos,
	}
	for _, p := range f.rev {
		sp.Reveals[p] = Reveal{SigSlot: sigs[p].sigslotCommit, Part: parts[p]}
	}
	return verifC39Forged{sp: sp, partcom: partTree.Root(), data: verifC39Data(f.msg)}
}

func verifC39ExecForge(line string) string {
	f := verifC39ParseForge(line)
	b := verifC39BuildForge(&f)
	v, err := MkVerifier(b.partcom, f.pw, f.st)
	if err != nil {
		return "mkverifier=" + verifC39ErrClass(err)
	}
	coinsOK := "ok"
	if v.lnProvenWeight != f.lnpw || verifC39Join(verifC39Coins(b.partcom, v.lnProvenWeight, b.sp.SigCommit, f.sw, b.data, len(f.pos)+1)) != f.coins {
		coinsOK = "bad"
	}
	verr := v.Verify(basics.Round(f.rnd), b.data, b.sp)
	return fmt.Sprintf("coins=%s verify=%s", coinsOK, verifC39ErrClass(verr))
}

// verifC39EmitForge: the attacker commits to its array, THEN sees the coins and picks the positions list.
//   strategy "fit":   for every coin the first revealed-able slot whose interval [L, L+Weight) (in ℕ) contains it, else `fallback`
//   strategy "fixed": always `fallback`
func verifC39EmitForge(rng *vh.Rng, f verifC39Forge, nOverride int, strategy string, fallback uint64, emit func(string)) {
	f.lnpw, _ = LnIntApproximation(f.pw)
	n := nOverride
	if n < 0 {
		nr := uint64(1 + rng.Intn(3))
		if f.sw != 0 { // numReveals(0, …) panics in getSubExpressions (C38); Prover.Ready keeps the prover away from it
			if r, err := numReveals(f.sw, f.lnpw, f.st); err == nil {
				nr = r
			}
		}
		n = int(nr)
	}
	f.pos, f.rev = nil, nil
	b := verifC39BuildForge(&f) // SigCommit does not depend on pos / rev
	coins := verifC39Coins(b.partcom, f.lnpw, b.sp.SigCommit, f.sw, b.data, n+1)
	seen := map[uint64]bool{}
	for j := 0; j < n; j++ {
		p := fallback
		if strategy == "fit" && j < len(coins) {
			for i, sp := range f.sigPos {
				L, W := f.sigL[i], f.weights[sp]
				if hi, lo := bits.Add64(L, W, 0); L <= coins[j] && (lo != 0 || coins[j] < hi) { // coin < L+W in ℕ
					p = sp
					break
				}
			}
		}
		f.pos = append(f.pos, p)
		if !seen[p] {
			seen[p] = true
			f.rev = append(f.rev, p)
		}
	}
	emit(f.line(verifC39Join(coins)))
}

func verifC39GenForge(rng *vh.Rng, emit func(string)) {
	life := uint64(16)
	sts := []uint64{1, 2, 4, 16, 64, 256}
	// A. the zero-stake forgery: only a zero-weight participant signs; L = 0; the claimed signed weight is the whole stake
	for i := 0; i < vh.Budget(30, 1500); i++ {
		n := 2 + rng.Intn(12)
		a := uint64(rng.Intn(n))
		f := verifC39Forge{msg: uint64(1 + rng.Intn(3)), rnd: 16*uint64(1+rng.Intn(3)) + uint64(rng.Intn(16)), life: life, st: sts[rng.Intn(len(sts))]}
		var total uint64
		for p := 0; p < n; p++ {
			w := uint64(1 + rng.Intn(1000000))
			if uint64(p) == a || rng.Chance(10) {
				w = 0
			}
			total += w
			f.weights = append(f.weights, w)
			f.keys = append(f.keys, uint64(rng.Intn(verifC39NumKeyIDs)))
		}
		if total < 4 {
			continue
		}
		f.pw = total / uint64(2+rng.Intn(3))
		f.sw = []uint64{total, f.pw + 1 + uint64(rng.Intn(int(total-f.pw))), total * 2}[rng.Intn(3)]
		f.sigPos, f.sigKey = []uint64{a}, []uint64{f.keys[a]}
		// B. the same with L > 0
		f.sigL = []uint64{[]uint64{0, 0, 0, 1, uint64(rng.Intn(1000)), total - 1}[rng.Intn(6)]}
		verifC39EmitForge(rng, f, -1, "fixed", a, emit)
	}
	// C/D. slots at the top of the uint64 range: L+Weight = 2^64 (wraps to 0), L = MaxUint64, and their neighbours
	for i := 0; i < vh.Budget(30, 600); i++ {
		max := ^uint64(0)
		L := []uint64{1, 2, 1 << 32, 1 << 63, max - 1, max}[rng.Intn(6)]
		W := []uint64{max - L + 1, max - L, max - L + 2, 0, 1, 2}[rng.Intn(6)] // L+W = 2^64, 2^64-1, 2^64+1
		f := verifC39Forge{msg: uint64(1 + rng.Intn(3)), rnd: 32, life: life, st: []uint64{0, 1, 2}[rng.Intn(3)], pw: 1 + uint64(rng.Intn(3)),
			weights: []uint64{W, 5}, keys: []uint64{1, 2}, sigPos: []uint64{0}, sigL: []uint64{L}, sigKey: []uint64{1}}
		f.sw = []uint64{max, 1 << 63, 1<<63 + 12345, max - 7}[rng.Intn(4)]
		verifC39EmitForge(rng, f, 1+rng.Intn(2), "fixed", 0, emit)
	}
	// E. exhaustive small grid of (L, Weight, claimed weight ⇒ coin): one reveal, one to three coins
	for W := uint64(0); W <= 3; W++ {
		for L := uint64(0); L <= 4; L++ {
			for sw := uint64(1); sw <= 6; sw++ {
				for msg := uint64(1); msg <= 3; msg++ {
					for n := 1; n <= 3; n++ {
						if !vh.Thorough() && rng.Intn(3) != 0 && !(W == 0 && L == 0) {
							continue
						}
						f := verifC39Forge{msg: msg, rnd: 33, life: life, st: 0, pw: 1, sw: sw, weights: []uint64{W}, keys: []uint64{3},
							sigPos: []uint64{0}, sigL: []uint64{L}, sigKey: []uint64{3}}
						verifC39EmitForge(rng, f, n, "fixed", 0, emit)
					}
				}
			}
		}
	}
	// F. boundary (L, Weight) pairs under large claimed weights
	bs := vh.Boundary64()
	for i := 0; i < vh.Budget(60, 3000); i++ {
		f := verifC39Forge{msg: uint64(1 + rng.Intn(3)), rnd: 20, life: life, st: uint64(rng.Intn(2)), pw: 1 + uint64(rng.Intn(5)),
			weights: []uint64{bs[rng.Intn(len(bs))], bs[rng.Intn(len(bs))]}, keys: []uint64{4, 5}, sigKey: []uint64{4, 5},
			sigPos: []uint64{0, 1}, sigL: []uint64{bs[rng.Intn(len(bs))], bs[rng.Intn(len(bs))]}}
		f.sw = bs[rng.Intn(len(bs))]
		if rng.Chance(50) {
			f.sw = f.sigL[0] + f.weights[0] + uint64(rng.Intn(3)) - 1
		}
		verifC39EmitForge(rng, f, 1+rng.Intn(3), "fit", uint64(rng.Intn(2)), emit)
	}
	// G. random attacker arrays: subsets of the participants (zero-weight ones included), cumulative / shifted / overlapping L,
	//    some signatures under the wrong key, claimed weight around the true one, positions fitted to the coins
	for i := 0; i < vh.Budget(80, 4000); i++ {
		n := 1 + rng.Intn(10)
		f := verifC39Forge{msg: uint64(1 + rng.Intn(3)), rnd: 16*uint64(1+rng.Intn(3)) + uint64(rng.Intn(16)), life: life, st: []uint64{0, 1, 2, 4, 8, 32}[rng.Intn(6)]}
		var total, acc, signed uint64
		for p := 0; p < n; p++ {
			w := uint64(rng.Intn(6))
			if rng.Chance(30) {
				w = uint64(rng.Intn(1000000))
			}
			total += w
			f.weights = append(f.weights, w)
			f.keys = append(f.keys, uint64(rng.Intn(verifC39NumKeyIDs)))
		}
		mode := rng.Intn(4) // 0 cumulative (honest layout), 1 all L = 0 (overlapping), 2 cumulative shifted down, 3 random
		for p := 0; p < n; p++ {
			if !rng.Chance(60) {
				continue
			}
			L := acc
			switch mode {
			case 1:
				L = 0
			case 2:
				if L > 0 {
					L -= uint64(rng.Intn(int(L) + 1))
				}
			case 3:
				L = uint64(rng.Intn(int(total) + 2))
			}
			k := f.keys[p]
			if rng.Chance(8) {
				k = (k + 1) % verifC39NumKeyIDs
			}
			f.sigPos, f.sigL, f.sigKey = append(f.sigPos, uint64(p)), append(f.sigL, L), append(f.sigKey, k)
			acc += f.weights[p]
			signed += f.weights[p]
		}
		if len(f.sigPos) == 0 {
			continue
		}
		f.pw = 1 + signed/uint64(2+rng.Intn(4))
		f.sw = []uint64{signed, signed, signed + 1, total, signed * 2, f.pw + 1}[rng.Intn(6)]
		verifC39EmitForge(rng, f, -1, "fit", f.sigPos[rng.Intn(len(f.sigPos))], emit)
	}
}

func TestVerifC39(t *testing.T) {
	out := vh.Open("c39")
	defer out.Close()
	if ops, ok := vh.ReplayOps(); ok {
		for _, op := range ops {
			out.Emit(op, verifC39Exec(op))
		}
		return
	}
	verifC39Generate(func(op string) { out.Emit(op, verifC39Exec(op)) })
}
