//go:build verif

package stateproof

// C38 correspondence harness: the real (unexported) getSubExpressions / numReveals / verifyWeights /
// prepareRejectionSamplingThreshold / getNextCoin on generated operands.
//
// Op grammar (space separated, decimal):
//   consts                         ⇒ precisionBits ln2IntApproximation MaxReveals VersionForCoinGenerator
//   sub  sw                        ⇒ y x w                     (getSubExpressions; sw ≥ 1)
//   nr   sw lnP st                 ⇒ ok n | err <name>         (numReveals)
//   vw   sw lnP n st               ⇒ ok | err <name>           (verifyWeights)
//   mon  sw lnP st                 ⇒ err <name> | ok n <vw n> <vw n-1>   (prover result fed to the verifier)
//   thr  sw                        ⇒ threshold                 (prepareRejectionSamplingThreshold)
//   coin sw z1 … zk                ⇒ coin consumed | PANIC     (getNextCoin on a scripted XOF: draws z1…zk)
//   xcoins sw lnP seed n z1 … zm   ⇒ c1,…,cn                   (real makeCoinGenerator+getNextCoin; z = XOF words)
import (
	"encoding/binary"
	"errors"
	"fmt"
	"math/big"
	"strings"
	"testing"

	"golang.org/x/crypto/sha3"

	"github.com/algorand/go-algorand/crypto"
	"github.com/algorand/go-algorand/zz_verif_tools/vh"
)

func verifC38Err(err error) string {
	switch {
	case err == nil:
		return "ok"
	case errors.Is(err, ErrTooManyReveals):
		return "err toomany"
	case errors.Is(err, ErrZeroSignedWeight):
		return "err zero"
	case errors.Is(err, ErrInsufficientSignedWeight):
		return "err insufficient"
	case errors.Is(err, ErrNegativeNumOfRevealsEquation):
		return "err negative"
	case errors.Is(err, ErrSignedWeightLessThanProvenWeight):
		return "err notready"
	}
	return "err other"
}

// verifC38Shake is a scripted XOF: Read hands out the queued 64-bit words (little endian), panics when exhausted.
type verifC38Shake struct {
	draws []uint64
	used  int
}

func (s *verifC38Shake) Write(p []byte) (int, error) { return len(p), nil }
func (s *verifC38Shake) Sum(b []byte) []byte         { return b }
func (s *verifC38Shake) Reset()                      {}
func (s *verifC38Shake) Size() int                   { return 8 }
func (s *verifC38Shake) BlockSize() int              { return 8 }
func (s *verifC38Shake) Clone() sha3.ShakeHash       { c := *s; return &c }
func (s *verifC38Shake) Read(p []byte) (int, error) {
	if len(p) != 8 {
		panic("unexpected read size")
	}
	if s.used >= len(s.draws) {
		panic("exhausted")
	}
	binary.LittleEndian.PutUint64(p, s.draws[s.used])
	s.used++
	return 8, nil
}

// verifC38Choice derives every field of the coin seed from (sw, lnP, seed) so that an op line is self-contained.
func verifC38Choice(sw, lnP, seed uint64) coinChoiceSeed {
	r := vh.NewRng(seed ^ 0xC38C38C38)
	var data MessageHash
	copy(data[:], r.Bytes(len(data)))
	return coinChoiceSeed{
		partCommitment: crypto.GenericDigest(r.Bytes(HashSize)),
		lnProvenWeight: lnP,
		sigCommitment:  crypto.GenericDigest(r.Bytes(HashSize)),
		signedWeight:   sw,
		data:           data,
	}
}

// verifC38Words returns the first m 64-bit words of the XOF stream the real generator reads for this seed.
func verifC38Words(choice coinChoiceSeed, m int) []uint64 {
	choice.version = VersionForCoinGenerator
	shk := sha3.NewShake256()
	shk.Write(crypto.HashRep(&choice))
	out := make([]uint64, m)
	for i := range out {
		var b [8]byte
		shk.Read(b[:])
		out[i] = binary.LittleEndian.Uint64(b[:])
	}
	return out
}

func verifC38Exec(op string) string {
	f := strings.Fields(op)
	res := vh.Catch(func() string {
		switch f[0] {
		case "consts":
			return fmt.Sprintf("%d %d %d %d", uint64(precisionBits), uint64(ln2IntApproximation), uint64(MaxReveals), uint64(VersionForCoinGenerator))
		case "sub":
			// sw = 0: uint(bits.Len64(0))-1 wraps, the 2^64-2 bit shift panics at once (makeslice: len out of range)
			y, x, w := getSubExpressions(vh.U(f[1]))
			return fmt.Sprintf("%s %s %s", y.String(), x.String(), w.String())
		case "nr":
			n, err := numReveals(vh.U(f[1]), vh.U(f[2]), vh.U(f[3]))
			if err != nil {
				return verifC38Err(err)
			}
			return fmt.Sprintf("ok %d", n)
		case "vw":
			return verifC38Err(verifyWeights(vh.U(f[1]), vh.U(f[2]), vh.U(f[3]), vh.U(f[4])))
		case "mon":
			sw, lnP, st := vh.U(f[1]), vh.U(f[2]), vh.U(f[3])
			n, err := numReveals(sw, lnP, st)
			if err != nil {
				return verifC38Err(err)
			}
			a := strings.ReplaceAll(verifC38Err(verifyWeights(sw, lnP, n, st)), " ", ":")
			b := "-"
			if n > 0 {
				b = strings.ReplaceAll(verifC38Err(verifyWeights(sw, lnP, n-1, st)), " ", ":")
			}
			return fmt.Sprintf("ok %d %s %s", n, a, b)
		case "thr":
			return prepareRejectionSamplingThreshold(vh.U(f[1])).String()
		case "coin":
			sw := vh.U(f[1])
			sh := &verifC38Shake{}
			for _, z := range f[2:] {
				sh.draws = append(sh.draws, vh.U(z))
			}
			cg := coinGenerator{shkContext: sh, signedWeight: sw, threshold: prepareRejectionSamplingThreshold(sw)}
			c := cg.getNextCoin()
			return fmt.Sprintf("%d %d", c, sh.used)
		case "xcoins":
			sw, lnP, seed, n := vh.U(f[1]), vh.U(f[2]), vh.U(f[3]), vh.U(f[4])
			choice := verifC38Choice(sw, lnP, seed)
			cg := makeCoinGenerator(&choice)
			var cs []string
			for i := uint64(0); i < n; i++ {
				cs = append(cs, fmt.Sprintf("%d", cg.getNextCoin()))
			}
			return strings.Join(cs, ",")
		}
		return "bad-op"
	})
	if strings.HasPrefix(res, "PANIC") {
		return "PANIC"
	}
	return res
}

// ---------------------------------------------------------------------------------------------- generator

var verifC38T = new(big.Int).SetUint64(uint64(ln2IntApproximation))

func verifC38Big(u uint64) *big.Int { return new(big.Int).SetUint64(u) }

// spec-side copy of the sub-expressions, used by the GENERATOR only (to aim operands at boundaries).
func verifC38Sub(sw uint64) (y, x, w *big.Int, d uint) {
	s := verifC38Big(sw)
	d = uint(s.BitLen() - 1)
	sq := new(big.Int).Mul(s, s)
	p2 := new(big.Int).Lsh(big.NewInt(1), 2*d)
	y = new(big.Int).Lsh(s, d+2)
	y.Add(y, sq).Add(y, p2)
	x = new(big.Int).Sub(sq, p2)
	x.Mul(x, big.NewInt(3<<16))
	w = new(big.Int).Mul(big.NewInt(int64(d)), big.NewInt(int64(ln2IntApproximation-1)))
	return
}

func verifC38ClampU64(b *big.Int) (uint64, bool) {
	if b.Sign() < 0 || !b.IsUint64() {
		return 0, false
	}
	return b.Uint64(), true
}

// lnP values that put denom = x + (w-lnP)*y around zero / around given small multiples of y.
func verifC38LnPNearZeroDenom(sw uint64) []uint64 {
	y, x, w, _ := verifC38Sub(sw)
	k := new(big.Int).Div(x, y) // denom > 0  ⇔  (w - lnP) > -x/y
	var out []uint64
	for dk := int64(-2); dk <= 2; dk++ {
		p := new(big.Int).Add(w, k)
		p.Add(p, big.NewInt(dk))
		if v, ok := verifC38ClampU64(p); ok {
			out = append(out, v)
		}
	}
	return out
}

// strength targets that put the quotient numerator/denom right at q0-1, q0, q0+1.
func verifC38StForQuotient(sw, lnP uint64, q0 *big.Int) []uint64 {
	y, x, w, _ := verifC38Sub(sw)
	den := new(big.Int).Sub(w, verifC38Big(lnP))
	den.Mul(den, y).Add(den, x)
	if den.Sign() <= 0 {
		return nil
	}
	ty := new(big.Int).Mul(verifC38T, y)
	st := new(big.Int).Mul(q0, den)
	st.Div(st, ty)
	var out []uint64
	for dk := int64(-1); dk <= 2; dk++ {
		if v, ok := verifC38ClampU64(new(big.Int).Add(st, big.NewInt(dk))); ok {
			out = append(out, v)
		}
	}
	return out
}

func verifC38Weights(rng *vh.Rng) []uint64 {
	ws := []uint64{1, 2, 3, 4, 5, 6, 7, 8, 9, 15, 16, 17, 100, 1000, 1<<10 + 1, 1000000, 10000000000000000, 3000000000000000, ^uint64(0), ^uint64(0) - 1}
	for k := uint(5); k < 64; k += 3 {
		ws = append(ws, 1<<k-1, 1<<k, 1<<k+1)
	}
	ws = append(ws, 1<<63-1, 1<<63, 1<<63+1, 1<<63+90, 1<<63+91)
	return ws
}

var verifC38Corpus = [][3]uint64{
	{2, 0, 18446337999258812859},     // lnProvenWeight = ln(1); quotient = 2^64 exactly
	{2, 45425, 1977582575097750597},  // quotient ≡ 2^64-1 (mod 2^64): Uint64()+1 wraps to 0
	{2, 45425, 8558831198220798631},  // quotient ≡ 5 (mod 2^64)
	{1<<63 + 1, 2861838, ^uint64(0)}, // quotient ≡ 2^64-1 (mod 2^64) on a boundary triple
	{2, 0, 18446337999258812858},     // quotient = 2^64-1: fits, but +1 wraps
}

func verifC38Generate() []string {
	var ops []string
	rng := vh.NewRng(vh.Seed())
	add := func(format string, a ...interface{}) { ops = append(ops, fmt.Sprintf(format, a...)) }
	add("consts")
	// 0. fixed corpus, run first: inputs on which the quotient numerator/denom does not fit in (or wraps) a
	// uint64. A numReveals that narrows the quotient before comparing it with MaxReveals returns 1, 0 and 6
	// here, counts the verifier rejects.
	for _, c := range verifC38Corpus {
		add("mon %d %d %d", c[0], c[1], c[2])
		add("nr %d %d %d", c[0], c[1], c[2])
	}

	ws := verifC38Weights(rng)
	sts := []uint64{0, 1, 2, 128, 255, 256, 257, 1000, 1 << 32, 1 << 63, ^uint64(0)}
	// 1. boundary grid: every weight × lnP around {0, ln(pw) for pw near sw, the zero of denom, w(sw), max} × strength targets
	for _, sw := range ws {
		add("sub %d", sw)
		add("thr %d", sw)
		lnps := []uint64{0, 1, ^uint64(0), 1 << 63}
		for _, pw := range []uint64{1, sw / 3, sw / 2, sw - sw/4, sw - sw/16, sw - 1, sw, sw + 1} {
			if l, err := LnIntApproximation(pw); err == nil {
				lnps = append(lnps, l)
			}
		}
		lnps = append(lnps, verifC38LnPNearZeroDenom(sw)...)
		_, _, w, _ := verifC38Sub(sw)
		if v, ok := verifC38ClampU64(w); ok {
			lnps = append(lnps, v, v+1)
			if v > 0 {
				lnps = append(lnps, v-1)
			}
		}
		for _, lnP := range lnps {
			for _, st := range sts {
				add("mon %d %d %d", sw, lnP, st)
			}
			for _, n := range []uint64{0, 1, 2, 639, 640, 641, 1 << 32, ^uint64(0)} {
				add("vw %d %d %d %d", sw, lnP, n, sts[rng.Intn(len(sts))])
			}
			// strength targets that land the result on the MaxReveals boundary
			for _, st := range verifC38StForQuotient(sw, lnP, big.NewInt(int64(MaxReveals)-1)) {
				add("mon %d %d %d", sw, lnP, st)
				add("nr %d %d %d", sw, lnP, st)
			}
		}
	}
	// verifier front checks
	for _, n := range []uint64{0, 1, 640, 641} {
		add("vw 0 0 %d 256", n)
		add("vw 0 %d %d 0", ^uint64(0), n)
	}

	// 2. exact-equality cases  n*denom == numerator  (sw = 2^d ⇒ x = 0; w - lnP = m*T; st = n*m)
	for d := uint(2); d < 64; d++ {
		for _, m := range []uint64{1, 2, uint64(d) - 1} {
			wv := uint64(d) * uint64(ln2IntApproximation-1)
			if m == 0 || m*uint64(ln2IntApproximation) > wv {
				continue
			}
			lnP := wv - m*uint64(ln2IntApproximation)
			for _, n := range []uint64{0, 1, 2, 7, 639, 640} {
				sw := uint64(1) << d
				add("vw %d %d %d %d", sw, lnP, n, n*m)
				if n > 0 {
					add("vw %d %d %d %d", sw, lnP, n-1, n*m)
					add("vw %d %d %d %d", sw, lnP, n, n*m+1)
				}
				add("mon %d %d %d", sw, lnP, n*m)
			}
		}
	}

	// 3. realistic and random triples
	n := vh.Budget(30000, 1500000)
	for i := 0; i < n; i++ {
		var sw uint64
		switch rng.Intn(4) {
		case 0:
			sw = ws[rng.Intn(len(ws))]
		case 1:
			sw = rng.Biased64()
		default:
			sw = rng.U64() >> uint(rng.Intn(63))
		}
		if sw == 0 {
			sw = 1
		}
		var lnP uint64
		switch rng.Intn(8) {
		case 0:
			lnP = rng.Biased64()
		case 1:
			c := verifC38LnPNearZeroDenom(sw)
			if len(c) > 0 {
				lnP = c[rng.Intn(len(c))]
			}
		default:
			// proven weight = signed weight * ratio, ratio in (0, 1.02): the prover's real operating range
			num := uint64(rng.Intn(1020) + 1)
			pw := new(big.Int).Mul(verifC38Big(sw), verifC38Big(num))
			pw.Div(pw, big.NewInt(1000))
			p, ok := verifC38ClampU64(pw)
			if !ok || p == 0 {
				p = 1
			}
			lnP, _ = LnIntApproximation(p)
			if rng.Chance(10) {
				lnP += uint64(rng.Intn(5)) - 2
			}
		}
		var st uint64
		switch rng.Intn(6) {
		case 0:
			st = rng.Biased64()
		case 1:
			st = uint64(rng.Intn(1024))
		case 2:
			c := verifC38StForQuotient(sw, lnP, big.NewInt(int64(rng.Intn(700))))
			if len(c) > 0 {
				st = c[rng.Intn(len(c))]
			}
		default:
			st = 256
		}
		switch rng.Intn(10) {
		case 0:
			add("nr %d %d %d", sw, lnP, st)
		case 1, 2, 3:
			nn := uint64(rng.Intn(645))
			if rng.Chance(5) {
				nn = rng.Biased64()
			}
			add("vw %d %d %d %d", sw, lnP, nn, st)
		case 4:
			add("sub %d", sw)
		default:
			add("mon %d %d %d", sw, lnP, st)
		}
	}

	// 4. quotient ≥ 2^64: big.Int.Uint64() keeps the low 64 bits (lands above MaxReveals ⇒ "too many" for these)
	for _, e := range []uint64{1, 2, 89, 90, 91, 92} {
		sw := uint64(1)<<63 + e
		add("mon %d %d 256", sw, 63*uint64(ln2IntApproximation-1))
		add("nr %d %d 256", sw, 63*uint64(ln2IntApproximation-1))
	}
	add("mon 2 45425 %d", ^uint64(0))
	add("mon 2 0 %d", ^uint64(0))

	// 5. coin threshold and rejection sampling on a scripted XOF
	two64 := new(big.Int).Lsh(big.NewInt(1), 64)
	for _, sw := range ws {
		thr := new(big.Int).Div(two64, verifC38Big(sw))
		thr.Mul(thr, verifC38Big(sw))
		var edge []uint64
		for dk := int64(-2); dk <= 1; dk++ {
			if v, ok := verifC38ClampU64(new(big.Int).Add(thr, big.NewInt(dk))); ok {
				edge = append(edge, v)
			}
		}
		edge = append(edge, 0, 1, sw-1, sw, sw+1, ^uint64(0), ^uint64(0)-1)
		for _, z := range edge {
			add("coin %d %d %d", sw, z, rng.U64()%sw) // second draw is always acceptable (< sw ≤ threshold)
			add("coin %d %d", sw, z)                  // a rejected single draw exhausts the script ⇒ PANIC
		}
		for j := 0; j < 4; j++ {
			s := fmt.Sprintf("coin %d", sw)
			for k := 0; k < 1+rng.Intn(6); k++ {
				if rng.Bool() {
					s += fmt.Sprintf(" %d", ^uint64(0)-uint64(rng.Intn(int(sw%1000+1))))
				} else {
					s += fmt.Sprintf(" %d", rng.U64())
				}
			}
			ops = append(ops, s+fmt.Sprintf(" %d", rng.U64()%sw))
		}
	}
	add("thr 0")
	add("coin 0 5")
	add("sub 0")
	add("nr 0 0 256")
	add("mon 0 0 256")

	// 6. the real generator (SHAKE256 over the real seed encoding); heavy rejection for sw just above 2^63
	m := vh.Budget(150, 3000)
	for i := 0; i < m; i++ {
		var sw uint64
		switch rng.Intn(4) {
		case 0:
			sw = uint64(1)<<63 + 1 + uint64(rng.Intn(1000))
		case 1:
			sw = uint64(1)<<62 + rng.U64()>>3
		case 2:
			sw = ws[rng.Intn(len(ws))]
		default:
			sw = rng.U64()>>uint(rng.Intn(63)) | 1
		}
		lnP, seed, cnt := rng.U64()>>40, rng.U64(), 1+rng.Intn(40)
		words := verifC38Words(verifC38Choice(sw, lnP, seed), 4*cnt+24)
		s := fmt.Sprintf("xcoins %d %d %d %d", sw, lnP, seed, cnt)
		for _, z := range words {
			s += fmt.Sprintf(" %d", z)
		}
		ops = append(ops, s)
	}
	return ops
}

func TestVerifC38(t *testing.T) {
	ops, replay := vh.ReplayOps()
	if !replay {
		ops = verifC38Generate()
	}
	out := vh.Open("c38")
	defer out.Close()
	for _, op := range ops {
		out.Emit(op, verifC38Exec(op))
	}
}
