//go:build verif

package stateproof_test

// C39, ledger context: the real stateproof/verify.ValidateStateProof (and AcceptableStateProofWeight) on real proofs
// built by the C39 case builder of package stateproof (exported to this external test package; package stateproof itself
// cannot import stateproof/verify).
//
//   vsp <case fields of the `sp` op> coins=<…> total=<OnlineTotalWeight> thr=<StateProofWeightThreshold> ivl=<StateProofInterval>
//       last=<LastAttestedRound> at=<atRound> vmsg=<message id given to the validator> vlnpw=<LnIntApproximation(total·thr/2^32)|0> mcoins=<…>|-
//     ⇒ create=err:<class> | create=ok coins=ok|bad validate=ok|err:<notenabled|notmultiple|weight|overflow|lnzero|crypto>
//     the signed message is stateproofmsg.Message{…, LastAttestedRound: rnd}.Hash() for message id `msg`
//   accw total=<t> thr=<thr> ivl=<i> hdr=<votersHdr.Round> first=<firstValid>   ⇒ AcceptableStateProofWeight
import (
	"encoding/binary"
	"errors"
	"fmt"
	"strings"
	"testing"

	"github.com/algorand/go-algorand/config"
	"github.com/algorand/go-algorand/crypto/stateproof"
	"github.com/algorand/go-algorand/data/basics"
	"github.com/algorand/go-algorand/data/bookkeeping"
	"github.com/algorand/go-algorand/data/stateproofmsg"
	"github.com/algorand/go-algorand/ledger/ledgercore"
	"github.com/algorand/go-algorand/logging"
	"github.com/algorand/go-algorand/protocol"
	"github.com/algorand/go-algorand/stateproof/verify"
	"github.com/algorand/go-algorand/zz_verif_tools/vh"
)

func verifC39xMessage(msg, rnd uint64) stateproofmsg.Message {
	b := make([]byte, 32)
	binary.LittleEndian.PutUint64(b, msg)
	return stateproofmsg.Message{BlockHeadersCommitment: b, LnProvenWeight: 7, FirstAttestedRound: basics.Round(rnd) - 15, LastAttestedRound: basics.Round(rnd)}
}

func verifC39xProto(ivl, thr, st uint64) protocol.ConsensusVersion {
	v := protocol.ConsensusVersion(fmt.Sprintf("verif-c39-%d-%d-%d", ivl, thr, st))
	if _, ok := config.Consensus[v]; !ok {
		p := config.Consensus[protocol.ConsensusCurrentVersion]
		p.StateProofInterval = ivl
		p.StateProofWeightThreshold = uint32(thr)
		p.StateProofStrengthTarget = st
		config.Consensus[v] = p
	}
	return v
}

func verifC39xKV(line string) map[string]string {
	m := map[string]string{}
	for _, kv := range strings.Fields(line)[1:] {
		if i := strings.IndexByte(kv, '='); i > 0 {
			m[kv[:i]] = kv[i+1:]
		}
	}
	return m
}

func verifC39xClass(err error) string {
	switch {
	case err == nil:
		return "ok"
	case errors.Is(err, stateproof.ErrIllegalInputForLnApprox):
		return "err:lnzero"
	case strings.Contains(err.Error(), "state proofs are not enabled"):
		return "err:notenabled"
	case strings.Contains(err.Error(), "state proof is not in a valid round multiple"):
		return "err:notmultiple"
	case strings.Contains(err.Error(), "insufficient state proof weight"):
		return "err:weight"
	case strings.HasPrefix(err.Error(), "overflow computing provenWeight"):
		return "err:overflow"
	case strings.HasSuffix(err.Error(), "state proof crypto error"):
		return "err:crypto"
	}
	return "err:other(" + err.Error() + ")"
}

// verifC39xProven: the verifier-side proven weight and its ln approximation (0 when there is none)
func verifC39xProven(total, thr uint64) (pw uint64, ln uint64, ok bool) {
	pw, overflowed := basics.Muldiv(total, thr, 1<<32)
	if overflowed || pw == 0 {
		return pw, 0, false
	}
	ln, _ = stateproof.LnIntApproximation(pw)
	return pw, ln, true
}

func verifC39xMCoins(b *stateproof.VerifC39Built, kv map[string]string, rnd uint64) string {
	_, vln, ok := verifC39xProven(vh.U(kv["total"]), vh.U(kv["thr"]))
	if !ok || (vln == b.LnPW && kv["vmsg"] == kv["msg"]) {
		return "-"
	}
	m := verifC39xMessage(vh.U(kv["vmsg"]), rnd)
	return stateproof.VerifC39Join(stateproof.VerifC39CoinsFor(b.Partcom, vln, b.Proof.SigCommit, b.SW, m.Hash(), len(b.Proof.PositionsToReveal)+2))
}

func verifC39xExec(line string) string {
	res := vh.Catch(func() string {
		kv := verifC39xKV(line)
		if strings.HasPrefix(line, "accw ") {
			v := verifC39xProto(vh.U(kv["ivl"]), vh.U(kv["thr"]), 256)
			hdr := bookkeeping.BlockHeader{Round: basics.Round(vh.U(kv["hdr"]))}
			hdr.CurrentProtocol = v
			hdr.StateProofTracking = map[protocol.StateProofType]bookkeeping.StateProofTrackingData{
				protocol.StateProofBasic: {StateProofOnlineTotalWeight: basics.MicroAlgos{Raw: vh.U(kv["total"])}}}
			return fmt.Sprintf("%d", verify.AcceptableStateProofWeight(&hdr, basics.Round(vh.U(kv["first"])), logging.Base()))
		}
		msg, rnd := vh.U(kv["msg"]), vh.U(kv["rnd"])
		m := verifC39xMessage(msg, rnd)
		b := stateproof.VerifC39BuildLedger(line, m.Hash())
		if b.Err != "" {
			return "create=" + b.Err
		}
		coinsOK := "ok"
		nr := len(b.Proof.PositionsToReveal)
		if stateproof.VerifC39Join(stateproof.VerifC39CoinsFor(b.Partcom, b.LnPW, b.Proof.SigCommit, b.SW, m.Hash(), nr+2)) != kv["coins"] {
			coinsOK = "bad"
		}
		if _, vln, _ := verifC39xProven(vh.U(kv["total"]), vh.U(kv["thr"])); fmt.Sprint(vln) != kv["vlnpw"] {
			coinsOK = "bad"
		}
		if verifC39xMCoins(&b, kv, rnd) != kv["mcoins"] {
			coinsOK = "bad"
		}
		ctx := ledgercore.StateProofVerificationContext{
			LastAttestedRound: basics.Round(vh.U(kv["last"])),
			VotersCommitment:  b.Partcom,
			OnlineTotalWeight: basics.MicroAlgos{Raw: vh.U(kv["total"])},
			Version:           verifC39xProto(vh.U(kv["ivl"]), vh.U(kv["thr"]), vh.U(kv["st"])),
		}
		vm := verifC39xMessage(vh.U(kv["vmsg"]), rnd)
		err := verify.ValidateStateProof(&ctx, b.Proof, basics.Round(vh.U(kv["at"])), &vm)
		return fmt.Sprintf("create=ok coins=%s validate=%s", coinsOK, verifC39xClass(err))
	})
	if strings.HasPrefix(res, "PANIC") {
		return "PANIC"
	}
	return res
}

const verifC39xThr = 1288490188 // 30% of 2^32: the deployed StateProofWeightThreshold

func verifC39xGenerate(emit func(string)) {
	rng := vh.NewRng(stateproof.VerifC39MixSeed(vh.Seed(), 0xC3911))
	// acceptable weight: the linear ramp from 100% to the threshold over the second half of the interval
	for i := 0; i < vh.Budget(400, 20000); i++ {
		ivl := []uint64{0, 1, 2, 3, 16, 256, 256, 256, 1000}[rng.Intn(9)]
		total := rng.Biased64()
		if rng.Chance(60) {
			total = uint64(rng.Intn(1 << 30)) * uint64(1+rng.Intn(1<<20))
		}
		thr := []uint64{verifC39xThr, 0, 1, 1 << 31, 1<<32 - 1, uint64(rng.Intn(1 << 32))}[rng.Intn(6)]
		hdr := uint64(rng.Intn(50)) * ivl
		if rng.Chance(10) {
			hdr = rng.Biased64() >> 2
		}
		first := hdr + ivl + uint64(rng.Intn(int(2*ivl+3)))
		if rng.Chance(15) {
			first = hdr + uint64(rng.Intn(int(ivl+2)))
		}
		emit(fmt.Sprintf("accw total=%d thr=%d ivl=%d hdr=%d first=%d", total, thr, ivl, hdr, first))
	}
	n := vh.Budget(30, 3000)
	for i := 0; i < n; i++ {
		thr := uint64(verifC39xThr)
		if rng.Chance(25) {
			thr = uint64(1<<28 + rng.Intn(1<<31))
		}
		base, total := stateproof.VerifC39GenLedgerCase(rng, i, thr)
		kv := verifC39xKV(base)
		msg, rnd, st := vh.U(kv["msg"]), vh.U(kv["rnd"]), vh.U(kv["st"])
		_ = st
		m := verifC39xMessage(msg, rnd)
		b := stateproof.VerifC39BuildLedger(base, m.Hash())
		line := func(total, thr, ivl, last, at, vmsg uint64) string {
			l := base
			if b.Err == "" {
				l += " coins=" + stateproof.VerifC39Join(stateproof.VerifC39CoinsFor(b.Partcom, b.LnPW, b.Proof.SigCommit, b.SW, m.Hash(), len(b.Proof.PositionsToReveal)+2))
			} else {
				l += " coins=-"
			}
			_, vln, _ := verifC39xProven(total, thr)
			l += fmt.Sprintf(" total=%d thr=%d ivl=%d last=%d at=%d vmsg=%d vlnpw=%d", total, thr, ivl, last, at, vmsg, vln)
			mc := "-"
			if b.Err == "" {
				mc = verifC39xMCoins(&b, verifC39xKV(l), rnd)
			}
			return l + " mcoins=" + mc
		}
		ivl := uint64(16)
		emit(line(total, thr, ivl, rnd, rnd+ivl, msg)) // the honest call, late enough for the threshold weight
		if b.Err != "" {
			continue
		}
		for _, at := range []uint64{0, rnd, rnd + 1, rnd + 8, rnd + 9, rnd + 10, rnd + 12, rnd + 15, rnd + 16, rnd + 17, rnd + 100} {
			emit(line(total, thr, ivl, rnd, at, msg)) // acceptable weight ramps from 100% down to the threshold
		}
		emit(line(total, thr, 0, rnd, rnd+16, msg))          // state proofs not enabled
		emit(line(total, thr, 5, rnd, rnd+16, msg))          // round not a multiple of the interval (unless 5 | rnd)
		emit(line(total, thr, 32, rnd, rnd+32, msg))         // multiple only for rnd = 32
		emit(line(total, thr, 1, rnd, rnd+1, msg))           // interval 1: half = 0
		emit(line(total, thr, ivl, rnd+3, rnd+19, msg))      // attested round off the grid
		emit(line(total, thr, ivl, rnd+16, rnd+32, msg))     // another attested round (another key period)
		if rnd >= 32 {
			emit(line(total, thr, ivl, rnd-16, rnd, msg))
		}
		emit(line(total, thr, ivl, rnd, rnd+16, msg%3+1))    // another message
		emit(line(total*2, thr, ivl, rnd, rnd+40, msg))      // another total weight: another proven weight
		emit(line(total, thr+1<<24, ivl, rnd, rnd+40, msg))  // another threshold
		emit(line(total, 1, ivl, rnd, rnd+40, msg))          // proven weight 0 (ln undefined) for small totals
		emit(line(^uint64(0), thr, ivl, rnd, rnd+40, msg))
		emit(line(0, thr, ivl, rnd, rnd+40, msg))
	}
}

func TestVerifC39Ledger(t *testing.T) {
	out := vh.Open("c39l")
	defer out.Close()
	if ops, ok := vh.ReplayOps(); ok {
		for _, op := range ops {
			out.Emit(op, verifC39xExec(op))
		}
		return
	}
	verifC39xGenerate(func(op string) { out.Emit(op, verifC39xExec(op)) })
}
